// operator new/delete over malloc/free for ASan builds: ASan's own operator new aborts on an
// impossible size instead of throwing std::bad_alloc; code that reads a size from a torn file
// must see the exception the real allocator raises. Requires allocator_may_return_null=1
// (set in sim/engine.hpp). Include in exactly one translation unit of an engine.
#pragma once
#include <cstdlib>
#include <new>
void *operator new(std::size_t n) { void *p = std::malloc(n ? n : 1); if (!p) throw std::bad_alloc(); return p; }
void *operator new[](std::size_t n) { void *p = std::malloc(n ? n : 1); if (!p) throw std::bad_alloc(); return p; }
void *operator new(std::size_t n, const std::nothrow_t &) noexcept { return std::malloc(n ? n : 1); }
void *operator new[](std::size_t n, const std::nothrow_t &) noexcept { return std::malloc(n ? n : 1); }
void operator delete(void *p) noexcept { std::free(p); }
void operator delete[](void *p) noexcept { std::free(p); }
void operator delete(void *p, std::size_t) noexcept { std::free(p); }
void operator delete[](void *p, std::size_t) noexcept { std::free(p); }
