// Simulated file system for paths under /simfs/ : link-time interposition of the libc entry
// points libstdc++'s basic_filebuf uses (fopen64/fopen, read, write, writev, lseek64/lseek,
// fclose, remove/unlink/rename). Include this header in exactly one translation unit of an
// engine. Benign behaviours (short reads/writes, EINTR) are injected at seeded rates; open
// failures and a process-kill crash model (freeze of the durable image at a chosen event /
// torn write) are driven by the engine.
#pragma once
#include "rng.hpp"
#include "engine.hpp"
#include <cerrno>
#include <cstdarg>
#include <cstdio>
#include <cstring>
#include <dlfcn.h>
#include <functional>
#include <map>
#include <string>
#include <sys/uio.h>
#include <unistd.h>
#include <vector>

namespace simfs {

typedef std::vector<unsigned char> Bytes;

struct OpenDesc { std::string path; size_t pos = 0; bool rd = false, wr = false, append = false; };

struct Event { std::string kind; std::string path; size_t bytes; };

struct FS {
    std::map<std::string, Bytes> files;      // what the (possibly ghost) process sees
    std::map<int, OpenDesc> fds;
    sim::Rng rng{1};
    double p_short_read = 0, p_short_write = 0, p_eintr = 0;
    std::map<std::string, int> open_errno;   // path -> errno the next opens fail with
    sim::Stats *st = nullptr;
    sim::Hash trace;
    bool record = false;
    std::vector<Event> events;
    // crash model (process kill): durable image frozen at event 'crash_at' (torn at 'crash_tear' bytes if it is a write)
    long event_count = 0, crash_at = -1; double crash_tear = 0.0;
    bool frozen = false; std::string crash_phase;
    std::map<std::string, Bytes> image;      // frozen durable image
    std::string crash_event_kind, crash_event_path; size_t crash_event_bytes = 0, crash_torn_at = 0;
    std::function<void(const std::string &, bool)> on_close; // (path, was open for writing), called when a descriptor is closed

    void reset() { on_close = nullptr; files.clear(); fds.clear(); open_errno.clear(); p_short_read = p_short_write = p_eintr = 0; event_count = 0; crash_at = -1; frozen = false; image.clear(); events.clear(); trace = sim::Hash(); crash_event_kind.clear(); crash_event_path.clear(); crash_event_bytes = 0; crash_torn_at = 0; }
    void inc(const char *k) { if (st) st->inc(k); }
    // returns true if this event is the crash point (caller applies the torn part to the image)
    bool tick(const char *kind, const std::string &path, size_t bytes) {
        trace.s(kind); trace.s(path); trace.u64(bytes);
        if (record) events.push_back({kind, path, bytes});
        long e = event_count++;
        if (!frozen && crash_at >= 0 && e == crash_at) {
            image = files; frozen = true; crash_event_kind = kind; crash_event_path = path; crash_event_bytes = bytes;
            return true;
        }
        return false;
    }
    // engine-level event (e.g. a model call) that can also be a crash point
    void event(const char *kind) { tick(kind, "", 0); }
    // restart: the new process sees the frozen image
    void restart() { if (frozen) files = image; fds.clear(); frozen = false; crash_at = -1; event_count = 0; image.clear(); events.clear(); }
};

inline FS &fs() { static FS f; return f; }
inline bool ours(const char *p) { return p && strncmp(p, "/simfs/", 7) == 0; }

template <class F> F real(const char *name) { static void *p = nullptr; (void)p; return (F)dlsym(RTLD_NEXT, name); }

inline FILE *do_fopen(const char *path, const char *mode, const char *which) {
    typedef FILE *(*fopen_t)(const char *, const char *);
    static fopen_t rf = (fopen_t)dlsym(RTLD_NEXT, "fopen64");
    if (!ours(path)) { fopen_t r = (fopen_t)dlsym(RTLD_NEXT, which); return r(path, mode); }
    FS &F = fs();
    std::string p(path);
    bool rd = strchr(mode, 'r') != nullptr, wr = strchr(mode, 'w') != nullptr, ap = strchr(mode, 'a') != nullptr, plus = strchr(mode, '+') != nullptr;
    auto ie = F.open_errno.find(p);
    if (ie != F.open_errno.end()) { F.inc(ie->second == ENOENT ? "fault.open_enoent" : "fault.open_eacces"); F.tick("open-fail", p, 0); errno = ie->second; return nullptr; }
    if (rd && !wr && !ap && F.files.find(p) == F.files.end()) { F.tick("open-missing", p, 0); errno = ENOENT; return nullptr; }
    bool crash = F.tick(wr ? "open-trunc" : (ap ? "open-append" : "open-read"), p, 0);
    (void)crash; // a crash *at* an open event: the open (and its truncation) did not happen in the durable image
    if (wr) F.files[p].clear();
    if (ap && F.files.find(p) == F.files.end()) F.files[p];
    FILE *fp = rf("/dev/null", mode);
    if (!fp) return nullptr;
    OpenDesc d; d.path = p; d.rd = rd || plus; d.wr = wr || ap || plus; d.append = ap; d.pos = ap ? F.files[p].size() : 0;
    F.fds[fileno(fp)] = d;
    return fp;
}

} // namespace simfs

extern "C" {

FILE *fopen64(const char *path, const char *mode) { return simfs::do_fopen(path, mode, "fopen64"); }
FILE *fopen(const char *path, const char *mode) { return simfs::do_fopen(path, mode, "fopen"); }

int fclose(FILE *fp) {
    typedef int (*fclose_t)(FILE *);
    static fclose_t r = (fclose_t)dlsym(RTLD_NEXT, "fclose");
    simfs::FS &F = simfs::fs();
    if (fp) { auto it = F.fds.find(fileno(fp)); if (it != F.fds.end()) { F.tick("close", it->second.path, 0); if (F.on_close) F.on_close(it->second.path, it->second.wr); F.fds.erase(it); } }
    return r(fp);
}

ssize_t read(int fd, void *buf, size_t n) {
    typedef ssize_t (*read_t)(int, void *, size_t);
    static read_t r = (read_t)dlsym(RTLD_NEXT, "read");
    simfs::FS &F = simfs::fs();
    auto it = F.fds.find(fd);
    if (it == F.fds.end()) return r(fd, buf, n);
    simfs::OpenDesc &d = it->second;
    if (F.p_eintr > 0 && F.rng.chance(F.p_eintr)) { F.inc("fault.eintr_read"); errno = EINTR; return -1; }
    auto f = F.files.find(d.path);
    size_t size = f == F.files.end() ? 0 : f->second.size();
    size_t avail = d.pos < size ? size - d.pos : 0, k = std::min(n, avail);
    if (k > 1 && F.p_short_read > 0 && F.rng.chance(F.p_short_read)) { k = 1 + (size_t)F.rng.below(k - 1); F.inc("fault.short_read"); }
    if (k) memcpy(buf, f->second.data() + d.pos, k);
    d.pos += k;
    F.trace.s("read"); F.trace.u64(k);
    return (ssize_t)k;
}

static ssize_t simfs_write_bytes(simfs::FS &F, simfs::OpenDesc &d, const unsigned char *b, size_t n, const char *kind) {
    if (F.p_eintr > 0 && F.rng.chance(F.p_eintr)) { F.inc("fault.eintr_write"); errno = EINTR; return -1; }
    size_t k = n;
    if (k > 1 && F.p_short_write > 0 && F.rng.chance(F.p_short_write)) { k = 1 + (size_t)F.rng.below(k - 1); F.inc("fault.short_write"); }
    bool crash = F.tick(kind, d.path, k);
    simfs::Bytes &data = F.files[d.path];
    if (d.append) d.pos = data.size();
    if (crash) {
        // torn write: only the first t bytes of this write reach the durable image
        // crash_tear in [0,1): fraction of this write that reaches the file; negative: that many bytes short of the complete write
        size_t t = F.crash_tear < 0 ? (k > (size_t)(-F.crash_tear) ? k - (size_t)(-F.crash_tear) : 0) : (size_t)(F.crash_tear * (double)k); if (t >= k && k > 0) t = k - 1;
        F.crash_torn_at = t;
        simfs::Bytes &img = F.image[d.path];
        if (img.size() < d.pos + t) img.resize(d.pos + t);
        if (t) memcpy(img.data() + d.pos, b, t);
        if (t) F.inc("fault.torn_write"); else F.inc("fault.crash_before_write");
    }
    if (data.size() < d.pos + k) data.resize(d.pos + k);
    if (k) memcpy(data.data() + d.pos, b, k);
    d.pos += k;
    return (ssize_t)k;
}

ssize_t write(int fd, const void *buf, size_t n) {
    typedef ssize_t (*write_t)(int, const void *, size_t);
    static write_t r = (write_t)dlsym(RTLD_NEXT, "write");
    simfs::FS &F = simfs::fs();
    auto it = F.fds.find(fd);
    if (it == F.fds.end()) return r(fd, buf, n);
    return simfs_write_bytes(F, it->second, (const unsigned char *)buf, n, "write");
}

ssize_t writev(int fd, const struct iovec *iov, int cnt) {
    typedef ssize_t (*writev_t)(int, const struct iovec *, int);
    static writev_t r = (writev_t)dlsym(RTLD_NEXT, "writev");
    simfs::FS &F = simfs::fs();
    auto it = F.fds.find(fd);
    if (it == F.fds.end()) return r(fd, iov, cnt);
    simfs::Bytes all;
    for (int k = 0; k < cnt; k++) all.insert(all.end(), (const unsigned char *)iov[k].iov_base, (const unsigned char *)iov[k].iov_base + iov[k].iov_len);
    return simfs_write_bytes(F, it->second, all.data(), all.size(), "writev");
}

static off64_t simfs_seek(simfs::FS &F, simfs::OpenDesc &d, off64_t off, int whence) {
    auto f = F.files.find(d.path);
    off64_t size = f == F.files.end() ? 0 : (off64_t)f->second.size();
    off64_t np = whence == SEEK_SET ? off : whence == SEEK_CUR ? (off64_t)d.pos + off : size + off;
    if (np < 0) { errno = EINVAL; return -1; }
    d.pos = (size_t)np;
    return np;
}
off64_t lseek64(int fd, off64_t off, int whence) {
    typedef off64_t (*lseek_t)(int, off64_t, int);
    static lseek_t r = (lseek_t)dlsym(RTLD_NEXT, "lseek64");
    simfs::FS &F = simfs::fs();
    auto it = F.fds.find(fd);
    if (it == F.fds.end()) return r(fd, off, whence);
    return simfs_seek(F, it->second, off, whence);
}
off_t lseek(int fd, off_t off, int whence) {
    typedef off_t (*lseek_t)(int, off_t, int);
    static lseek_t r = (lseek_t)dlsym(RTLD_NEXT, "lseek");
    simfs::FS &F = simfs::fs();
    auto it = F.fds.find(fd);
    if (it == F.fds.end()) return r(fd, off, whence);
    return (off_t)simfs_seek(F, it->second, off, whence);
}

int remove(const char *path) {
    typedef int (*rm_t)(const char *);
    static rm_t r = (rm_t)dlsym(RTLD_NEXT, "remove");
    if (!simfs::ours(path)) return r(path);
    simfs::FS &F = simfs::fs();
    F.tick("remove", path, 0);
    if (!F.files.erase(path)) { errno = ENOENT; return -1; }
    return 0;
}
int unlink(const char *path) {
    typedef int (*rm_t)(const char *);
    static rm_t r = (rm_t)dlsym(RTLD_NEXT, "unlink");
    if (!simfs::ours(path)) return r(path);
    simfs::FS &F = simfs::fs();
    F.tick("unlink", path, 0);
    if (!F.files.erase(path)) { errno = ENOENT; return -1; }
    return 0;
}
int rename(const char *a, const char *b) {
    typedef int (*rn_t)(const char *, const char *);
    static rn_t r = (rn_t)dlsym(RTLD_NEXT, "rename");
    if (!simfs::ours(a) && !simfs::ours(b)) return r(a, b);
    simfs::FS &F = simfs::fs();
    F.tick("rename", a, 0);
    auto it = F.files.find(a);
    if (it == F.files.end()) { errno = ENOENT; return -1; }
    F.files[b] = it->second; F.files.erase(a);
    return 0;
}

} // extern "C"
