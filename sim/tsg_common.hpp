// Shared workload generator (histgen) and observational digest (observe) for the grid engines.
#pragma once
#include "json.hpp"
#include "rng.hpp"
#include "engine.hpp"
#include "TasmanianSparseGrid.hpp"
#include <cmath>
#include <sstream>

namespace tsgsim {
using sim::Json;
using sim::Rng;
using TasGrid::TasmanianSparseGrid;

// ---------------------------------------------------------------- model values
// Smooth, injective in (point, output): every value is attributable to one point.
inline double modelValue(const double *x, int d, int out, double variant = 0.0) {
    double q = 0.0, l = 0.0;
    for (int k = 0; k < d; k++) { q += (0.3 + 0.1 * k) * x[k] * x[k]; l += (k + 1) * 0.37 * x[k]; }
    return std::exp(-q) * std::cos(0.3 + 0.7 * out + variant + l) + 0.1 * out + 0.01 * l;
}
inline std::vector<double> modelValues(const std::vector<double> &pts, int d, int outs, double variant = 0.0) {
    size_t n = d ? pts.size() / (size_t)d : 0;
    std::vector<double> v(n * (size_t)outs);
    for (size_t i = 0; i < n; i++) for (int o = 0; o < outs; o++) v[i * outs + o] = modelValue(&pts[i * d], d, o, variant);
    return v;
}

// ---------------------------------------------------------------- make
struct GenOpts {
    std::vector<std::string> families{"global", "sequence", "localp", "wavelet", "fourier"};
    int max_dims = 3, max_outs = 3, min_outs = 0, max_depth = 4, max_points = 300;
    bool nested_only = false;      // global rules restricted to nested ones (refinement / construction)
    bool transforms = true;
    int wavelet_max_dims = 2;
    bool optimized_rules = true;   // min-lebesgue / min-delta / max-lebesgue: every further node costs a greedy optimisation
    bool custom_rules = true;      // global grids with a user-tabulated rule
};

inline const std::vector<std::string> &globalNested() {
    static std::vector<std::string> v{"clenshaw-curtis", "clenshaw-curtis-zero", "fejer2", "leja", "leja-odd", "rleja", "rleja-odd", "rleja-double2", "rleja-double4",
                                      "rleja-shifted", "rleja-shifted-even", "rleja-shifted-double", "min-lebesgue", "min-delta", "max-lebesgue", "gauss-patterson"};
    return v;
}
inline const std::vector<std::string> &globalNonNested() {
    static std::vector<std::string> v{"chebyshev", "chebyshev-odd", "gauss-legendre", "gauss-legendre-odd", "gauss-chebyshev1", "gauss-chebyshev2", "gauss-gegenbauer",
                                      "gauss-jacobi", "gauss-laguerre", "gauss-hermite", "gauss-hermite-odd"};
    return v;
}
inline const std::vector<std::string> &sequenceRules() {
    static std::vector<std::string> v{"leja", "rleja", "rleja-shifted", "min-lebesgue", "min-delta", "max-lebesgue"};
    return v;
}
inline const std::vector<std::string> &depthTypes() {
    static std::vector<std::string> v{"level", "curved", "hyperbolic", "iptotal", "qptotal", "ipcurved", "qpcurved", "iphyperbolic", "qphyperbolic", "tensor", "iptensor", "qptensor"};
    return v;
}
inline bool isCurved(const std::string &t) { return t == "curved" || t == "ipcurved" || t == "qpcurved"; }

inline Json genLimits(Rng &r, int d, double p_some = 0.3) {
    Json l = Json::array();
    if (!r.chance(p_some)) return l;
    for (int k = 0; k < d; k++) l.push(Json(r.pick<int>({-1, -1, 0, 1, 2, 3})));
    return l;
}
inline Json genAniso(Rng &r, int d, const std::string &type, double p_some = 0.4) {
    Json a = Json::array();
    if (!r.chance(p_some)) return a;
    for (int k = 0; k < d; k++) a.push(Json(r.range(1, 3)));
    if (isCurved(type)) for (int k = 0; k < d; k++) a.push(Json(r.range(0, 2)));
    return a;
}
// Curved weights with a negative logarithmic correction (estimateAnisotropicCoefficients() can return such weights): the index set is then
// not provably lower and the general selection algorithm runs. Without level limits such sets grow without bound (observed: integer
// overflow in pow3 / level caches, minutes-long selections - outside the listed properties), so callers must pair them with level limits.
inline Json genAnisoNegativeCurved(Rng &r, int d) {
    Json a = Json::array();
    for (int k = 0; k < d; k++) a.push(Json(1));
    for (int k = 0; k < d; k++) a.push(Json(r.range(-2, 0)));
    return a;
}

inline Json genMake(Rng &r, const GenOpts &o) {
    Json m = Json::object();
    std::string fam = r.pick(o.families);
    int d = r.range(1, o.max_dims);
    if (fam == "wavelet") d = std::min(d, o.wavelet_max_dims);
    m["family"] = fam; m["dims"] = d; m["outs"] = r.range(o.min_outs, o.max_outs);
    m["depth"] = r.range(0, o.max_depth);
    std::string type = r.pick(depthTypes());
    if (fam == "global" || fam == "sequence" || fam == "fourier") { m["type"] = type; m["aniso"] = genAniso(r, d, type); }
    if (fam == "global") {
        bool nested = o.nested_only || r.chance(0.65);
        std::string rule = nested ? r.pick(globalNested()) : r.pick(globalNonNested());
        if (!o.optimized_rules && (rule == "min-lebesgue" || rule == "min-delta" || rule == "max-lebesgue")) rule = "rleja";
        if (!o.nested_only && o.custom_rules && r.chance(0.10)) { // user-tabulated rule (Gauss-Legendre nodes) with a seeded, possibly awkward, description text
            rule = "custom-tabulated";
            m["custom_desc"] = r.pick<std::string>({"", " leading blank", "  two leading blanks", "custom rule (verif)", "x", "trailing blanks  ", "description: nested keyword", "tab\tinside"});
        }
        m["rule"] = rule;
        m["alpha"] = (rule.find("gegenbauer") != std::string::npos || rule.find("jacobi") != std::string::npos || rule.find("laguerre") != std::string::npos || rule.find("hermite") != std::string::npos) ? r.pick<double>({0.0, 0.5, 1.0, 2.0}) : 0.0;
        m["beta"] = rule.find("jacobi") != std::string::npos ? r.pick<double>({0.0, 0.5, 1.5}) : 0.0;
    } else if (fam == "sequence") {
        std::string rule = r.pick(sequenceRules());
        if (!o.optimized_rules && (rule == "min-lebesgue" || rule == "min-delta" || rule == "max-lebesgue")) rule = "rleja-shifted";
        m["rule"] = rule;
    }
    else if (fam == "localp") {
        m["rule"] = r.pick<std::string>({"localp", "localp", "semi-localp", "localp-zero", "localp-boundary"});
        m["order"] = r.pick<int>({-1, 0, 1, 1, 2, 2, 3, 4});
    } else if (fam == "wavelet") { m["order"] = r.chance(0.7) ? 1 : 3; m["depth"] = std::min<int>((int)m["depth"].integer(), 3); }
    m["limits"] = genLimits(r, d);
    if (o.transforms && r.chance(0.3)) {
        Json a = Json::array(), b = Json::array();
        std::string rule = m.gets("rule");
        for (int k = 0; k < d; k++) {
            double lo = r.uniform(-3, 1), len = r.uniform(0.5, 4);
            if (rule.find("laguerre") != std::string::npos || rule.find("hermite") != std::string::npos) { a.push(Json(lo)); b.push(Json(r.uniform(0.5, 2.0))); }
            else { a.push(Json(lo)); b.push(Json(lo + len)); }
        }
        m["ta"] = a; m["tb"] = b;
    }
    if (o.transforms && r.chance(0.12) && fam != "fourier") {
        std::string rule = m.gets("rule");
        if (rule.find("laguerre") == std::string::npos && rule.find("hermite") == std::string::npos) {
            Json c = Json::array(); for (int k = 0; k < d; k++) c.push(Json(r.range(0, 6))); m["conformal"] = c;
        }
    }
    m["max_points"] = o.max_points;
    return m;
}

inline std::vector<int> ivec(const Json &p, const char *k) { auto q = p.find(k); return q && q->isArr() ? q->ivec() : std::vector<int>(); }
inline std::vector<double> dvec(const Json &p, const char *k) { auto q = p.find(k); return q && q->isArr() ? q->dvec() : std::vector<double>(); }

inline TasGrid::TypeDepth depthOf(const std::string &s) { return TasGrid::IO::getDepthTypeString(s); }
inline TasGrid::TypeOneDRule ruleOf(const std::string &s) { return TasGrid::IO::getRuleString(s); }
inline TasGrid::TypeRefinement refOf(const std::string &s) { return TasGrid::IO::getTypeRefinementString(s); }

inline void fixLen(std::vector<int> &v, size_t n, int fill) { if (!v.empty() && v.size() != n) v.resize(n, fill); }

// Build the grid a "make" record describes; depth is reduced until the point cap is met.
inline void doMake(TasmanianSparseGrid &g, const Json &m) {
    std::string fam = m.gets("family", "global");
    int d = (int)std::max<int64_t>(1, m.geti("dims", 1)), outs = (int)std::max<int64_t>(0, m.geti("outs", 1)), depth = (int)std::max<int64_t>(0, m.geti("depth", 1));
    std::string type = m.gets("type", "level");
    std::vector<int> aniso = ivec(m, "aniso"), limits = ivec(m, "limits");
    fixLen(aniso, isCurved(type) ? 2 * (size_t)d : (size_t)d, 1); fixLen(limits, (size_t)d, -1);
    int cap = (int)m.geti("max_points", 300);
    if (fam == "wavelet") { cap = std::min(cap, 80); depth = std::min(depth, 2); } // wavelet solves are slow under ASan
    if (fam == "fourier") cap = std::min(cap, 120);
    if (type.find("tensor") != std::string::npos) { depth = std::min(depth, 2); for (auto &a : aniso) a = std::min(a, 2); } // tensor types: levels = depth x weight
    if (fam == "fourier") depth = std::min(depth, 3);                                                                   // 3^level points per dimension
    for (;; depth--) {
        if (fam == "global" && m.gets("rule") == "custom-tabulated") {
            const int nl = 12; std::vector<int> nn, prec; std::vector<std::vector<double>> xs, ws;
            for (int l = 0; l < nl; l++) { std::vector<double> w, x; TasGrid::OneDimensionalNodes::getGaussLegendre(l + 1, w, x); nn.push_back(l + 1); prec.push_back(2 * l + 1); xs.push_back(x); ws.push_back(w); }
            g.makeGlobalGrid(d, outs, std::min(depth, 4), depthOf(type), TasGrid::CustomTabulated(std::move(nn), std::move(prec), std::move(xs), std::move(ws), m.gets("custom_desc", "custom")), aniso, limits);
        }
        else if (fam == "global") g.makeGlobalGrid(d, outs, depth, depthOf(type), ruleOf(m.gets("rule", "clenshaw-curtis")), aniso, m.getd("alpha", 0), m.getd("beta", 0), nullptr, limits);
        else if (fam == "sequence") g.makeSequenceGrid(d, outs, depth, depthOf(type), ruleOf(m.gets("rule", "leja")), aniso, limits);
        else if (fam == "localp") g.makeLocalPolynomialGrid(d, outs, depth, (int)m.geti("order", 1), ruleOf(m.gets("rule", "localp")), limits);
        else if (fam == "wavelet") g.makeWaveletGrid(d, outs, depth, (int)m.geti("order", 1) == 3 ? 3 : 1, limits);
        else g.makeFourierGrid(d, outs, depth, depthOf(type), aniso, limits);
        if (g.getNumPoints() <= cap || depth == 0) break;
    }
    std::vector<double> a = dvec(m, "ta"), b = dvec(m, "tb");
    if (!a.empty()) { a.resize((size_t)d, -1.0); b.resize((size_t)d, 2.0); g.setDomainTransform(a, b); }
    std::vector<int> c = ivec(m, "conformal");
    if (!c.empty() && fam != "fourier") { c.resize((size_t)d, 2); g.setConformalTransformASIN(c); }
}

// ---------------------------------------------------------------- history operations
inline bool supportsAniso(const TasmanianSparseGrid &g) {
    if (g.isSequence() || g.isFourier()) return true;
    if (g.isGlobal()) return TasGrid::OneDimensionalMeta::isNonNested(g.getRule()) == false;
    return false;
}
inline bool supportsSurplusGlobal(const TasmanianSparseGrid &g) {
    if (g.isSequence()) return true;
    if (g.isGlobal()) return TasGrid::OneDimensionalMeta::isSequence(g.getRule());
    return false;
}

inline Json genOp(Rng &r, int d, bool allow_construction = true) {
    Json o = Json::object();
    std::string k = r.pick<std::string>({"load", "load", "load", "refine", "refine", "refine", "update", "merge", "clear", "setcoef", "begin", "cand_load", "cand_load", "finish",
                                         "copy", "transform", "conformal", "remove", "reload"});
    if (!allow_construction && (k == "begin" || k == "cand_load" || k == "finish")) k = "refine";
    o["op"] = k;
    if (k == "refine") {
        o["tol"] = r.pick<double>({0.0, 1e-8, 1e-4, 1e-2, 1e-1});
        o["criteria"] = r.pick<std::string>({"classic", "parents", "direction", "fds", "stable"});
        o["output"] = r.range(-1, 2);
        o["type"] = r.pick<std::string>({"iptotal", "ipcurved", "iphyperbolic", "qptotal", "level"});
        o["min_growth"] = r.range(1, 12);
        o["limits"] = genLimits(r, d, 0.25);
        o["prefer_surplus"] = r.chance(0.5);
        o["scale"] = r.chance(0.2);
    } else if (k == "update") {
        std::string t = r.pick(depthTypes());
        o["depth"] = r.range(0, 5); o["type"] = t; o["aniso"] = genAniso(r, d, t); o["limits"] = genLimits(r, d, 0.25);
    } else if (k == "setcoef") { o["seed"] = (long long)(r.next() >> 2); }
    else if (k == "cand_load") {
        o["take"] = r.range(1, 12); o["perm_seed"] = (long long)(r.next() >> 2); o["batch"] = r.chance(0.5);
        std::string t = r.pick<std::string>({"iptotal", "level", "ipcurved", "iphyperbolic"});
        o["type"] = t; o["aniso"] = genAniso(r, d, t, 1.0); o["by_output"] = r.chance(0.3); o["output"] = r.range(-1, 1);
        o["tol"] = r.pick<double>({0.0, 1e-6, 1e-3}); o["criteria"] = r.pick<std::string>({"classic", "parents", "direction", "fds", "stable"});
        o["limits"] = genLimits(r, d, 0.2);
    } else if (k == "copy") { o["lo"] = r.range(0, 2); o["hi"] = r.range(-1, 3); }
    else if (k == "transform") { Json a = Json::array(), b = Json::array(); bool clear = r.chance(0.3); o["clear"] = clear; for (int q = 0; q < d; q++) { double lo = r.uniform(-2, 1); a.push(Json(lo)); b.push(Json(lo + r.uniform(0.5, 3))); } o["a"] = a; o["b"] = b; }
    else if (k == "conformal") { Json c = Json::array(); for (int q = 0; q < d; q++) c.push(Json(r.range(0, 5))); o["c"] = c; o["clear"] = r.chance(0.4); }
    else if (k == "remove") { o["tol"] = r.pick<double>({1e-3, 1e-2, 1e-1}); o["output"] = r.range(-1, 1); }
    else if (k == "reload") { o["variant"] = r.uniform(0.1, 1.0); }
    return o;
}

// Apply one history operation. Returns "ok", "skip:<why>" (not applicable in this state: no-op) or
// "rejected:<exception>" (the library refused the call).
inline std::string applyOp(TasmanianSparseGrid &g, const Json &o, sim::Stats *st = nullptr) {
    std::string k = o.gets("op");
    if (g.empty()) return "skip:empty";
    int d = g.getNumDimensions(), outs = g.getNumOutputs();
    auto lim = [&]() { std::vector<int> l = ivec(o, "limits"); fixLen(l, (size_t)d, -1); return l; };
    try {
        if (k == "load" || k == "reload") {
            if (outs == 0) return "skip:no-outputs";
            if (g.isUsingConstruction()) return "skip:construction";
            double variant = k == "reload" ? o.getd("variant", 0.5) : 0.0;
            if (g.getNumNeeded() > 0) { g.loadNeededValues(modelValues(g.getNeededPoints(), d, outs, variant)); return "ok"; }
            if (k == "reload" && g.getNumLoaded() > 0) { g.loadNeededValues(modelValues(g.getLoadedPoints(), d, outs, variant)); if (st) st->inc("reach.overwriting_reload"); return "ok"; }
            return "skip:nothing-needed";
        }
        if (k == "refine") {
            if (outs == 0 || g.getNumLoaded() == 0 || g.isUsingConstruction()) return "skip:state";
            int out = (int)o.geti("output", -1); if (out >= outs) out = outs - 1;
            if (g.isLocalPolynomial() || g.isWavelet()) {
                std::vector<double> scale;
                if (o.getb("scale")) { scale.resize((size_t)g.getNumLoaded() * (size_t)(out == -1 ? outs : 1)); for (size_t i = 0; i < scale.size(); i++) scale[i] = 0.5 + (double)(i % 3); }
                g.setSurplusRefinement(o.getd("tol", 1e-3), refOf(o.gets("criteria", "classic")), out, lim(), scale);
                return "ok";
            }
            if (g.isGlobal() && out < 0) out = 0; // documented: Global grids require a specific output
            bool surplus = o.getb("prefer_surplus") && supportsSurplusGlobal(g);
            if (surplus) { g.setSurplusRefinement(o.getd("tol", 1e-3), out, lim()); return "ok"; }
            if (supportsAniso(g)) {
                // with every dimension capped and the cap reached, setAnisotropicRefinement() never terminates on the pinned
                // tree (a C08 matter, outside the claimed properties): only refine anisotropically without level limits
                std::vector<int> eff = lim(); if (eff.empty()) eff = g.getLevelLimits();
                bool open = true; for (int l : eff) if (l >= 0) open = false; // (one capped dimension is enough for the loop to spin with curved weights)
                if (!open) return "skip:level-limits";
                {   // degenerate coefficients (all zero after a merge, random after setHierarchicalCoefficients) give non-positive
                    // estimated weights with which the same loop never grows the grid either
                    std::vector<int> w = g.estimateAnisotropicCoefficients(depthOf(o.gets("type", "iptotal")), out);
                    for (size_t q = 0; q < w.size(); q++) if ((q < (size_t)d && w[q] < 1) || (q >= (size_t)d && w[q] < 0)) return "skip:degenerate-weights";
                }
                int mg = (int)std::max<int64_t>(1, o.geti("min_growth", 1));
                TasGrid::TypeOneDRule rl = g.getRule(); // optimised sequences: every further node costs an optimisation, keep them short
                if (rl == TasGrid::rule_minlebesgue || rl == TasGrid::rule_mindelta || rl == TasGrid::rule_maxlebesgue || rl == TasGrid::rule_minlebesgueodd || rl == TasGrid::rule_mindeltaodd || rl == TasGrid::rule_maxlebesgueodd) mg = 1;
                g.setAnisotropicRefinement(depthOf(o.gets("type", "iptotal")), mg, out, lim()); return "ok";
            }
            return "skip:family";
        }
        if (k == "update") {
            if (!(g.isGlobal() || g.isSequence() || g.isFourier())) return "skip:family";
            if (g.isUsingConstruction()) return "skip:construction";
            // updateGlobalGrid() on a custom-tabulated grid without loaded values re-makes the grid and re-reads the rule from a
            // null file name (crash in CustomTabulated::read(nullptr)): outside the listed properties, recorded in DESIGN.md, not exercised
            if (g.isGlobal() && g.getRule() == TasGrid::rule_customtabulated && (outs == 0 || g.getNumLoaded() == 0)) return "skip:custom-rule-remake";
            if (g.isGlobal() && g.getRule() == TasGrid::rule_customtabulated) { /* custom tables hold 12 levels */ }
            std::string t = o.gets("type", "level");
            std::vector<int> a = ivec(o, "aniso"); fixLen(a, isCurved(t) ? 2 * (size_t)d : (size_t)d, 1);
            int depth = (int)o.geti("depth", 1);
            if (t.find("tensor") != std::string::npos) { depth = std::min(depth, 2); for (auto &w : a) w = 1; } // tensor types: levels = depth x weight
            if (g.isFourier()) depth = std::min(depth, t.find("tensor") != std::string::npos ? 1 : 3);           // 3^level points per dimension
            g.updateGrid(depth, depthOf(t), a, lim());
            if (g.getNumPoints() > 600) g.clearRefinement(); // keep the workload small
            return "ok";
        }
        if (k == "merge") { if (g.isUsingConstruction()) return "skip:construction"; g.mergeRefinement(); return "ok"; }
        if (k == "clear") {
            if (g.isUsingConstruction()) return "skip:construction";
            // documented use: cancel a refinement that was set on a grid with loaded values (clearing the only points of a
            // never-loaded grid leaves a point-less object that none of the listed properties speaks about)
            if (g.getNumLoaded() == 0) return "skip:nothing-loaded";
            g.clearRefinement(); return "ok";
        }
        if (k == "setcoef") {
            if (outs == 0 || g.getNumPoints() == 0 || g.isUsingConstruction()) return "skip:state";
            Rng r((uint64_t)o.geti("seed", 1));
            std::vector<double> c((size_t)g.getNumPoints() * (size_t)outs * (g.isFourier() ? 2 : 1));
            for (auto &v : c) v = r.uniform(-1, 1);
            g.setHierarchicalCoefficients(c);
            return "ok";
        }
        // the asin conformal map does not round-trip bit-exactly, and construction identifies a delivered sample by searching
        // for its coordinates (growing the node sequence while it searches): construction is only driven without conformal maps
        if (k == "begin") { if (g.isSetConformalTransformASIN()) return "skip:conformal"; g.beginConstruction(); return "ok"; }
        if (k == "finish") { if (!g.isUsingConstruction()) return "skip:not-constructing"; g.finishConstruction(); return "ok"; }
        if (k == "cand_load") {
            if (!g.isUsingConstruction()) return "skip:not-constructing";
            if (outs == 0) return "skip:no-outputs";
            std::vector<double> x;
            if (g.isLocalPolynomial() || g.isWavelet()) {
                int out = (int)o.geti("output", -1); if (out >= outs) out = outs - 1;
                x = g.getCandidateConstructionPoints(o.getd("tol", 1e-3), refOf(o.gets("criteria", "classic")), out, lim());
            } else {
                if (g.isGlobal() && TasGrid::OneDimensionalMeta::isNonNested(g.getRule())) return "skip:non-nested";
                std::string t = o.gets("type", "iptotal");
                if (o.getb("by_output") && g.getNumLoaded() > 0) { int out = (int)o.geti("output", -1); if (out >= outs) out = outs - 1; if (g.isGlobal() && out < 0) out = 0; x = g.getCandidateConstructionPoints(depthOf(t), out, lim()); }
                else { std::vector<int> a = ivec(o, "aniso"); a.resize(isCurved(t) ? 2 * (size_t)d : (size_t)d, 1); x = g.getCandidateConstructionPoints(depthOf(t), a, lim()); }
            }
            size_t n = x.size() / (size_t)d;
            if (n == 0) return "skip:no-candidates";
            size_t take = std::min<size_t>(n, (size_t)std::max<int64_t>(1, o.geti("take", 3)));
            std::vector<size_t> idx(n); for (size_t i = 0; i < n; i++) idx[i] = i;
            Rng r((uint64_t)o.geti("perm_seed", 1));
            // mostly the first candidates (as a driver would), in a seeded order
            if (r.chance(0.3)) r.shuffle(idx);
            idx.resize(take); r.shuffle(idx);
            std::vector<double> px, py;
            for (size_t i : idx) px.insert(px.end(), x.begin() + i * d, x.begin() + (i + 1) * d);
            py = modelValues(px, d, outs);
            if (o.getb("batch")) g.loadConstructedPoints(px, py);
            else for (size_t i = 0; i < take; i++) g.loadConstructedPoints(&px[i * d], 1, &py[i * outs]);
            return "ok";
        }
        if (k == "copy") {
            int lo = (int)o.geti("lo", 0), hi = (int)o.geti("hi", -1);
            // an output sub-range copy of a grid under construction leaves the copied construction data with the
            // source's output count (Global/Fourier: crash in ejectCompleteTensor) - a C11 matter, not exercised here
            if (outs == 0 || g.isUsingConstruction()) { lo = 0; hi = -1; }
            else { lo = std::min(lo, outs - 1); if (hi != -1) { hi = std::min(hi, outs); if (hi <= lo) hi = lo + 1; } }
            TasmanianSparseGrid c; c.copyGrid(g, lo, hi); g = std::move(c);
            return "ok";
        }
        if (k == "transform") {
            if (o.getb("clear")) { g.clearDomainTransform(); return "ok"; }
            std::vector<double> a = dvec(o, "a"), b = dvec(o, "b"); a.resize((size_t)d, -1); b.resize((size_t)d, 1);
            TasGrid::TypeOneDRule rl = g.getRule();
            if (rl == TasGrid::rule_gausslaguerre || rl == TasGrid::rule_gausslaguerreodd || rl == TasGrid::rule_gausshermite || rl == TasGrid::rule_gausshermiteodd)
                for (auto &v : b) v = std::fabs(v) + 0.5;
            else for (size_t q = 0; q < a.size(); q++) if (!(b[q] > a[q])) b[q] = a[q] + 1.0;
            g.setDomainTransform(a, b);
            return "ok";
        }
        if (k == "conformal") {
            if (g.isFourier()) return "skip:family";
            if (g.isUsingConstruction()) return "skip:construction";
            if (o.getb("clear")) { g.clearConformalTransform(); return "ok"; }
            TasGrid::TypeOneDRule rl = g.getRule();
            if (rl == TasGrid::rule_gausslaguerre || rl == TasGrid::rule_gausslaguerreodd || rl == TasGrid::rule_gausshermite || rl == TasGrid::rule_gausshermiteodd) return "skip:unbounded";
            std::vector<int> c = ivec(o, "c"); c.resize((size_t)d, 2);
            g.setConformalTransformASIN(c);
            return "ok";
        }
        if (k == "remove") {
            if (!g.isLocalPolynomial() || outs == 0 || g.getNumLoaded() == 0 || g.isUsingConstruction()) return "skip:state";
            int out = (int)o.geti("output", -1); if (out >= outs) out = outs - 1;
            g.removePointsByHierarchicalCoefficient(o.getd("tol", 1e-2), out);
            return "ok";
        }
    } catch (std::invalid_argument &e) { return std::string("rejected:invalid_argument:") + e.what(); }
    catch (std::runtime_error &e) { return std::string("rejected:runtime_error:") + e.what(); }
    return "skip:unknown-op";
}

// ---------------------------------------------------------------- observe
struct Section { std::string name; int kind; std::vector<double> v; std::string s; }; // kind 0 exact, 1 rounding, 2 string
struct Obs {
    std::vector<Section> sec;
    void exact(const std::string &n, std::vector<double> v) { sec.push_back({n, 0, std::move(v), ""}); }
    void exacti(const std::string &n, const std::vector<int> &v) { std::vector<double> x(v.begin(), v.end()); sec.push_back({n, 0, std::move(x), ""}); }
    void round(const std::string &n, std::vector<double> v) { sec.push_back({n, 1, std::move(v), ""}); }
    void str(const std::string &n, const std::string &s) { sec.push_back({n, 2, {}, s}); }
    uint64_t hash() const { sim::Hash h; for (auto &s : sec) { h.s(s.name); h.vec(s.v); h.s(s.s); } return h.h; }
};

struct ObsOpts {
    bool level_limits = true, weights = true, surrogate = true, coefficients = true, candidates = true, hierarchy = true, deriv = true;
    int probes = 5;
};

inline std::vector<double> probePoints(const TasmanianSparseGrid &g, int nprobe) {
    // inside the domain by construction: grid points and midpoints of consecutive grid points
    std::vector<double> P = g.getPoints(), out;
    int d = g.getNumDimensions(); size_t n = d ? P.size() / (size_t)d : 0;
    if (n == 0) return out;
    for (int k = 0; k < nprobe; k++) {
        size_t i = ((size_t)k * 7919u + 3) % n, j = ((size_t)k * 104729u + 1) % n;
        for (int q = 0; q < d; q++) out.push_back((k % 3 == 0) ? P[i * d + q] : 0.5 * (P[i * d + q] + P[j * d + q]) + ((k % 3 == 2) ? 0.0 : 0.013 * (P[j * d + q] - P[i * d + q])));
    }
    return out;
}

inline Obs observe(const TasmanianSparseGrid &g, const ObsOpts &oo = ObsOpts()) {
    Obs o;
    if (g.empty()) { o.str("meta", "empty"); return o; }
    int d = g.getNumDimensions(), outs = g.getNumOutputs();
    std::ostringstream m;
    m << (g.isGlobal() ? "global" : g.isSequence() ? "sequence" : g.isLocalPolynomial() ? "localp" : g.isWavelet() ? "wavelet" : "fourier")
      << " d=" << d << " outs=" << outs << " rule=" << TasGrid::IO::getRuleString(g.getRule()) << " order=" << g.getOrder() << " alpha=" << g.getAlpha() << " beta=" << g.getBeta()
      << " loaded=" << g.getNumLoaded() << " needed=" << g.getNumNeeded() << " points=" << g.getNumPoints() << " constructing=" << g.isUsingConstruction()
      << " domain=" << g.isSetDomainTransfrom() << " conformal=" << g.isSetConformalTransformASIN();
    o.str("meta", m.str());
    if (g.isGlobal() && g.getRule() == TasGrid::rule_customtabulated) o.str("custom_rule_description", g.getCustomRuleDescription());
    // zero-output grids keep their points in the "loaded" set while getNumLoaded() reports 0: the vector
    // overload of getLoadedPoints() would then write through a zero-sized buffer; not a listed property, avoided here
    if (outs > 0) o.exact("loaded_points", g.getLoadedPoints()); else o.exact("loaded_points", {});
    o.exact("needed_points", g.getNeededPoints());
    o.exact("points", g.getPoints());
    if (outs > 0 && g.getNumLoaded() > 0) {
        const double *v = g.getLoadedValues();
        o.exact("values", std::vector<double>(v, v + (size_t)g.getNumLoaded() * outs));
    } else o.exact("values", {});
    if (oo.level_limits) o.exacti("level_limits", g.getLevelLimits());
    if (g.isSetDomainTransfrom()) { std::vector<double> a, b; g.getDomainTransform(a, b); o.exact("transform_a", a); o.exact("transform_b", b); }
    if (g.isSetConformalTransformASIN()) o.exacti("conformal", g.getConformalTransformASIN());
    if (oo.coefficients && outs > 0 && g.getNumLoaded() > 0) {
        const double *c = g.getHierarchicalCoefficients();
        if (c) o.round("coefficients", std::vector<double>(c, c + (size_t)g.getNumLoaded() * outs * (g.isFourier() ? 2 : 1)));
    }
    if (oo.weights && g.getNumPoints() > 0) o.round("quadrature_weights", g.getQuadratureWeights());
    std::vector<double> X = probePoints(g, oo.probes);
    size_t np = d ? X.size() / (size_t)d : 0;
    if (oo.surrogate && outs > 0 && g.getNumLoaded() > 0 && np > 0) {
        std::vector<double> y; g.evaluateBatch(X, y); o.round("evaluateBatch", y);
        std::vector<double> y1((size_t)outs); g.evaluate(&X[0], y1.data()); o.round("evaluate", y1);
        o.round("integrate", g.integrate());
        if (oo.deriv && !g.isSetConformalTransformASIN()) { std::vector<double> x0(X.begin(), X.begin() + d); o.round("differentiate", g.differentiate(x0)); }
    }
    if (oo.weights && np > 0 && g.getNumPoints() > 0 && g.getNumPoints() <= 400) {
        std::vector<double> x0(X.begin() + (np > 1 ? d : 0), X.begin() + (np > 1 ? 2 * d : d));
        o.round("interpolation_weights", g.getInterpolationWeights(x0));
    }
    if (oo.hierarchy && np > 0 && g.getNumPoints() > 0) {
        std::vector<double> x2(X.begin(), X.begin() + std::min<size_t>(np, 2) * d);
        o.round("hierarchical_functions", g.evaluateHierarchicalFunctions(x2));
    }
    if (oo.candidates && g.isUsingConstruction()) {
        TasmanianSparseGrid c(g);
        try {
            std::vector<double> cand;
            if (c.isLocalPolynomial() || c.isWavelet()) cand = c.getCandidateConstructionPoints(1e-4, TasGrid::refine_classic, -1);
            else cand = c.getCandidateConstructionPoints(TasGrid::type_iptotal, std::vector<int>((size_t)d, 1));
            o.exact("construction_candidates", cand);
        } catch (std::exception &e) { o.str("construction_candidates", std::string("exception: ") + e.what()); }
    }
    return o;
}

// First difference between two digests ("" if none). Rounding tolerance is relative to the section's scale.
inline std::string diffObs(const Obs &a, const Obs &b, double tol, std::string *section = nullptr, double *maxdev = nullptr) {
    if (a.sec.size() != b.sec.size()) {
        // report the first name mismatch
        for (size_t k = 0; k < std::min(a.sec.size(), b.sec.size()); k++) if (a.sec[k].name != b.sec[k].name) { if (section) *section = a.sec[k].name; return "section " + a.sec[k].name + " present on one side only"; }
        if (section) *section = "sections"; return "different number of observable sections";
    }
    for (size_t k = 0; k < a.sec.size(); k++) {
        const Section &x = a.sec[k], &y = b.sec[k];
        if (x.name != y.name) { if (section) *section = x.name; return "section order differs at " + x.name + " / " + y.name; }
        if (x.kind == 2) { if (x.s != y.s) { if (section) *section = x.name; return x.name + ": '" + x.s + "' vs '" + y.s + "'"; } continue; }
        if (x.v.size() != y.v.size()) { if (section) *section = x.name; return x.name + ": sizes " + std::to_string(x.v.size()) + " vs " + std::to_string(y.v.size()); }
        if (x.kind == 0) {
            for (size_t i = 0; i < x.v.size(); i++) if (memcmp(&x.v[i], &y.v[i], 8) != 0 && !(x.v[i] == y.v[i])) {
                if (section) *section = x.name;
                char buf[160]; snprintf(buf, sizeof buf, "%s[%zu]: %.17g vs %.17g", x.name.c_str(), i, x.v[i], y.v[i]); return buf;
            }
        } else {
            double scale = 1.0; for (double v : x.v) if (std::isfinite(v)) scale = std::max(scale, std::fabs(v));
            for (size_t i = 0; i < x.v.size(); i++) {
                double dv = std::fabs(x.v[i] - y.v[i]);
                if (std::isnan(x.v[i]) && std::isnan(y.v[i])) continue;
                if (x.v[i] == y.v[i]) continue;
                if (maxdev && std::isfinite(dv)) *maxdev = std::max(*maxdev, dv / scale);
                if (!(dv <= tol * scale)) {
                    if (section) *section = x.name;
                    char buf[200]; snprintf(buf, sizeof buf, "%s[%zu]: %.17g vs %.17g (|diff| %.3g, scale %.3g)", x.name.c_str(), i, x.v[i], y.v[i], dv, scale); return buf;
                }
            }
        }
    }
    return "";
}

// shape key of a grid state for "distinct" counts
inline uint64_t shapeKey(const TasmanianSparseGrid &g) {
    sim::Hash h;
    if (g.empty()) { h.s("empty"); return h.h; }
    h.i(g.isGlobal() ? 1 : g.isSequence() ? 2 : g.isLocalPolynomial() ? 3 : g.isWavelet() ? 4 : 5);
    h.i(g.getNumDimensions()); h.i(g.getNumOutputs()); h.i((int)g.getRule()); h.i(g.getOrder());
    h.i(g.getNumLoaded()); h.i(g.getNumNeeded()); h.i(g.isUsingConstruction()); h.i(g.isSetDomainTransfrom()); h.i(g.isSetConformalTransformASIN());
    h.vec(g.getPoints());
    return h.h;
}

inline std::string stateClass(const TasmanianSparseGrid &g) {
    if (g.empty()) return "empty";
    std::string s = g.isUsingConstruction() ? "constructing" : (g.getNumNeeded() > 0 ? (g.getNumLoaded() > 0 ? "pending-refinement" : "fresh") : "loaded");
    if (g.getNumOutputs() == 0) s += "-zero-outputs";
    return s;
}
inline std::string familyName(const TasmanianSparseGrid &g) {
    return g.empty() ? "empty" : g.isGlobal() ? "global" : g.isSequence() ? "sequence" : g.isLocalPolynomial() ? "localp" : g.isWavelet() ? "wavelet" : "fourier";
}

} // namespace tsgsim
