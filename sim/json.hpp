// Minimal JSON value: parse + dump. Objects keep insertion order.
// Doubles are written with 17 significant digits (round-trip exact); non-finite
// doubles are written as the strings "nan", "inf", "-inf" and read back by num().
#pragma once
#include <cmath>
#include <cstdint>
#include <cstdio>
#include <cstdlib>
#include <cstring>
#include <stdexcept>
#include <string>
#include <utility>
#include <vector>

namespace sim {

class Json {
public:
    enum Type { Null, Bool, Int, Dbl, Str, Arr, Obj };
    Type t = Null;
    bool b = false;
    int64_t i = 0;
    double d = 0.0;
    std::string s;
    std::vector<Json> a;
    std::vector<std::pair<std::string, Json>> o;

    Json() {}
    Json(bool v) : t(Bool), b(v) {}
    Json(int v) : t(Int), i(v) {}
    Json(unsigned v) : t(Int), i(v) {}
    Json(long v) : t(Int), i(v) {}
    Json(long long v) : t(Int), i(v) {}
    Json(unsigned long v) : t(Int), i((int64_t)v) {}
    Json(unsigned long long v) : t(Int), i((int64_t)v) {}
    Json(double v) : t(Dbl), d(v) {}
    Json(const char *v) : t(Str), s(v) {}
    Json(const std::string &v) : t(Str), s(v) {}
    static Json array() { Json j; j.t = Arr; return j; }
    static Json object() { Json j; j.t = Obj; return j; }
    template <class T> static Json from(const std::vector<T> &v) {
        Json j = array();
        for (auto const &x : v) j.a.push_back(Json(x));
        return j;
    }

    bool isNull() const { return t == Null; }
    bool isObj() const { return t == Obj; }
    bool isArr() const { return t == Arr; }
    bool isStr() const { return t == Str; }
    bool isNum() const { return t == Int || t == Dbl; }
    size_t size() const { return t == Arr ? a.size() : (t == Obj ? o.size() : 0); }

    Json &push(Json v) { if (t != Arr) { t = Arr; } a.push_back(std::move(v)); return a.back(); }
    Json &operator[](size_t k) { return a.at(k); }
    const Json &operator[](size_t k) const { return a.at(k); }
    Json &operator[](const std::string &k) {
        if (t != Obj) t = Obj;
        for (auto &p : o) if (p.first == k) return p.second;
        o.emplace_back(k, Json());
        return o.back().second;
    }
    Json &operator[](const char *k) { return (*this)[std::string(k)]; }
    const Json *find(const std::string &k) const {
        if (t != Obj) return nullptr;
        for (auto const &p : o) if (p.first == k) return &p.second;
        return nullptr;
    }
    bool has(const std::string &k) const { return find(k) != nullptr; }
    const Json &at(const std::string &k) const {
        const Json *p = find(k);
        if (!p) throw std::runtime_error("json: missing key " + k);
        return *p;
    }
    int64_t integer(int64_t def = 0) const {
        if (t == Int) return i;
        if (t == Dbl) return (int64_t)d;
        if (t == Bool) return b ? 1 : 0;
        return def;
    }
    double num(double def = 0.0) const {
        if (t == Int) return (double)i;
        if (t == Dbl) return d;
        if (t == Str) {
            if (s == "nan") return std::nan("");
            if (s == "inf") return INFINITY;
            if (s == "-inf") return -INFINITY;
            if (s.size() > 2 && s[0] == 'x') { // hex bits
                uint64_t u = strtoull(s.c_str() + 1, nullptr, 16); double r; memcpy(&r, &u, 8); return r;
            }
        }
        return def;
    }
    bool boolean(bool def = false) const {
        if (t == Bool) return b;
        if (t == Int) return i != 0;
        return def;
    }
    std::string str(const std::string &def = "") const { return t == Str ? s : def; }
    int64_t geti(const std::string &k, int64_t def = 0) const { auto p = find(k); return p ? p->integer(def) : def; }
    double getd(const std::string &k, double def = 0) const { auto p = find(k); return p ? p->num(def) : def; }
    bool getb(const std::string &k, bool def = false) const { auto p = find(k); return p ? p->boolean(def) : def; }
    std::string gets(const std::string &k, const std::string &def = "") const { auto p = find(k); return p ? p->str(def) : def; }
    std::vector<double> dvec() const { std::vector<double> v; for (auto const &x : a) v.push_back(x.num()); return v; }
    std::vector<int> ivec() const { std::vector<int> v; for (auto const &x : a) v.push_back((int)x.integer()); return v; }

    // ---- dump
    static void esc(const std::string &s, std::string &out) {
        out.push_back('"');
        for (unsigned char c : s) {
            switch (c) {
            case '"': out += "\\\""; break;
            case '\\': out += "\\\\"; break;
            case '\n': out += "\\n"; break;
            case '\r': out += "\\r"; break;
            case '\t': out += "\\t"; break;
            default:
                if (c < 0x20) { char buf[8]; snprintf(buf, sizeof buf, "\\u%04x", c); out += buf; }
                else out.push_back((char)c);
            }
        }
        out.push_back('"');
    }
    void dumpTo(std::string &out) const {
        char buf[64];
        switch (t) {
        case Null: out += "null"; break;
        case Bool: out += b ? "true" : "false"; break;
        case Int: snprintf(buf, sizeof buf, "%lld", (long long)i); out += buf; break;
        case Dbl:
            if (std::isnan(d)) out += "\"nan\"";
            else if (std::isinf(d)) out += d > 0 ? "\"inf\"" : "\"-inf\"";
            else {
                snprintf(buf, sizeof buf, "%.17g", d);
                out += buf;
                if (!strpbrk(buf, ".eE")) out += ".0";
            }
            break;
        case Str: esc(s, out); break;
        case Arr:
            out.push_back('[');
            for (size_t k = 0; k < a.size(); k++) { if (k) out.push_back(','); a[k].dumpTo(out); }
            out.push_back(']');
            break;
        case Obj:
            out.push_back('{');
            for (size_t k = 0; k < o.size(); k++) {
                if (k) out.push_back(',');
                esc(o[k].first, out); out.push_back(':'); o[k].second.dumpTo(out);
            }
            out.push_back('}');
            break;
        }
    }
    std::string dump() const { std::string out; dumpTo(out); return out; }

    // ---- parse
    static Json parse(const std::string &text) {
        size_t p = 0;
        Json j = parseValue(text, p);
        skip(text, p);
        if (p != text.size()) throw std::runtime_error("json: trailing characters");
        return j;
    }
private:
    static void skip(const std::string &s, size_t &p) { while (p < s.size() && (s[p] == ' ' || s[p] == '\n' || s[p] == '\t' || s[p] == '\r')) p++; }
    static Json parseValue(const std::string &s, size_t &p) {
        skip(s, p);
        if (p >= s.size()) throw std::runtime_error("json: unexpected end");
        char c = s[p];
        if (c == '{') {
            Json j = object(); p++;
            skip(s, p);
            if (p < s.size() && s[p] == '}') { p++; return j; }
            for (;;) {
                skip(s, p);
                if (p >= s.size() || s[p] != '"') throw std::runtime_error("json: expected key");
                std::string k = parseString(s, p);
                skip(s, p);
                if (p >= s.size() || s[p] != ':') throw std::runtime_error("json: expected colon");
                p++;
                j.o.emplace_back(k, parseValue(s, p));
                skip(s, p);
                if (p < s.size() && s[p] == ',') { p++; continue; }
                if (p < s.size() && s[p] == '}') { p++; return j; }
                throw std::runtime_error("json: expected , or }");
            }
        }
        if (c == '[') {
            Json j = array(); p++;
            skip(s, p);
            if (p < s.size() && s[p] == ']') { p++; return j; }
            for (;;) {
                j.a.push_back(parseValue(s, p));
                skip(s, p);
                if (p < s.size() && s[p] == ',') { p++; continue; }
                if (p < s.size() && s[p] == ']') { p++; return j; }
                throw std::runtime_error("json: expected , or ]");
            }
        }
        if (c == '"') return Json(parseString(s, p));
        if (!s.compare(p, 4, "true")) { p += 4; return Json(true); }
        if (!s.compare(p, 5, "false")) { p += 5; return Json(false); }
        if (!s.compare(p, 4, "null")) { p += 4; return Json(); }
        size_t q = p; bool isd = false;
        if (q < s.size() && (s[q] == '-' || s[q] == '+')) q++;
        while (q < s.size() && (isdigit((unsigned char)s[q]) || s[q] == '.' || s[q] == 'e' || s[q] == 'E' || s[q] == '-' || s[q] == '+')) {
            if (s[q] == '.' || s[q] == 'e' || s[q] == 'E') isd = true;
            q++;
        }
        if (q == p) throw std::runtime_error("json: bad value");
        std::string tok = s.substr(p, q - p);
        p = q;
        if (isd) return Json(strtod(tok.c_str(), nullptr));
        return Json((long long)strtoll(tok.c_str(), nullptr, 10));
    }
    static std::string parseString(const std::string &s, size_t &p) {
        std::string out; p++;
        while (p < s.size() && s[p] != '"') {
            if (s[p] == '\\') {
                p++;
                if (p >= s.size()) break;
                switch (s[p]) {
                case 'n': out.push_back('\n'); break;
                case 't': out.push_back('\t'); break;
                case 'r': out.push_back('\r'); break;
                case 'b': out.push_back('\b'); break;
                case 'f': out.push_back('\f'); break;
                case 'u': {
                    unsigned v = (unsigned)strtoul(s.substr(p + 1, 4).c_str(), nullptr, 16);
                    p += 4;
                    if (v < 0x80) out.push_back((char)v);
                    else if (v < 0x800) { out.push_back((char)(0xC0 | (v >> 6))); out.push_back((char)(0x80 | (v & 0x3F))); }
                    else { out.push_back((char)(0xE0 | (v >> 12))); out.push_back((char)(0x80 | ((v >> 6) & 0x3F))); out.push_back((char)(0x80 | (v & 0x3F))); }
                    break;
                }
                default: out.push_back(s[p]);
                }
                p++;
            } else out.push_back(s[p++]);
        }
        if (p >= s.size()) throw std::runtime_error("json: unterminated string");
        p++;
        return out;
    }
};

inline std::string hexbits(double v) { uint64_t u; memcpy(&u, &v, 8); char b[24]; snprintf(b, sizeof b, "x%016llx", (unsigned long long)u); return b; }

} // namespace sim
