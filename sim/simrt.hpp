// Deterministic thread simulator: real threads, exactly one runs at a time (run token), every
// scheduling decision comes from one seeded stream. The runtime (simrt.cpp, compiled WITHOUT
// instrumentation) owns, by link-time interposition in the executable:
//   - pthread_create/join, pthread_mutex_*, pthread_cond_*      (std::thread, std::mutex, condition_variable)
//   - nanosleep/clock_nanosleep/clock_gettime/gettimeofday/time/sched_yield   (discrete-event clock)
//   - the libgomp ABI the library needs (GOMP_parallel, barrier, critical, dynamic loops, omp_get_*)
//   - __tsan_* hooks emitted by g++ -fsanitize=thread (linked WITHOUT libtsan): every load and store
//     of instrumented code is an event for the happens-before race detector and a possible
//     pre-emption point
//   - memcpy/memmove/memset (range events), operator new/delete (shadow reset, quarantine)
//   - __cxa_guard_* (function-local statics)
// Threads that are not simulation tasks fall through to the real functions.
#pragma once
#include <cstdint>
#include <functional>
#include <map>
#include <string>
#include <vector>

namespace simrt {

enum Strategy { RUN_TO_BLOCK = 0, RANDOM_WALK = 1, PCT = 2, ROUND_ROBIN = 3, STARVE_ONE = 4 };

struct Config {
    uint64_t seed = 1;            // schedule stream
    int strategy = RANDOM_WALK;
    int pct_depth = 2;            // number of priority change points (PCT)
    uint64_t pct_events = 2000;   // estimate of the number of scheduling events (PCT change points are placed in [0, pct_events))
    int starve = 1;               // task starved by STARVE_ONE (runs only when nothing else can)
    double preempt_mean = 0;      // mean number of instrumented memory events between forced pre-emptions (0 = never pre-empt at accesses)
    double p_spurious = 0;        // probability per scheduling step of a spurious condition-variable wake-up (when a waiter exists)
    int signal_policy = 0;        // notify_one target: 0 seeded, 1 longest waiting, 2 most recent
    int omp_threads = 1;          // team size of simulated parallel regions
    int omp_chunk_order = 0;      // dynamic loops: 0 ascending hand-out, 1 seeded (legal for schedule(nonmonotonic:dynamic))
    bool race_detect = true;
    uint64_t random_steps = ~0ULL; // after this many scheduling steps the schedule degenerates to run-to-block without pre-emption or
                                  // spurious wake-ups: the minimiser shrinks it, so a minimised replay has the shortest "interesting" prefix
    uint64_t step_cap = 2000000;  // scheduling steps
    uint64_t event_cap = 4000000000ULL; // instrumented memory events
};

struct Race {
    std::string kind;       // "race" | "use-after-free"
    std::string fnA, fnB;   // innermost TASMANIAN frames (previous access, current access)
    bool writeA = false, writeB = false;
    int taskA = 0, taskB = 0;
    std::string where;      // symbolised pcs
    std::vector<std::string> stackB;
};

struct Result {
    bool completed = false;
    uint64_t steps = 0, switches = 0, mem_events = 0, preemptions = 0, spurious = 0, tasks = 0, regions = 0, chunks = 0, timed_jumps = 0;
    double sim_time = 0;
    uint64_t trace_hash = 0;      // every decision
    uint64_t sync_hash = 0;       // projection on synchronisation events (interleaving measure)
    std::vector<Race> races;      // distinct (fnA, fnB, kind)
    std::map<std::string, long> counters;
    std::map<std::string, long> omp_regions; // outlined region function -> times forked with a team > 1 (coverage of the parallel regions)
};

// Runs body() as task 0 under the scheduler and returns when every task has finished.
// Deadlock, step cap and internal errors end the PROCESS with "SIM-FATAL: <class>" on stderr
// (threads blocked inside library code cannot be unwound); the driver turns that into a violation.
Result run(const Config &cfg, const std::function<void()> &body);

bool active();                 // calling thread is a simulation task
int task_id();                 // 0 = body, 1.. = created threads / team members
uint64_t seq();                // global event sequence number (advances at every scheduling step)
double now();                  // simulated seconds
void sleep(double seconds);    // simulated sleep (discrete-event)
void point(const char *label); // explicit scheduling point
void ignore_begin();           // harness code between begin/end is invisible to the race detector
void ignore_end();
struct Ignore { Ignore() { ignore_begin(); } ~Ignore() { ignore_end(); } };
void count(const char *name, long n = 1);
void set_fatal_context(const char *text); // appended to SIM-FATAL lines (e.g. current run index)

} // namespace simrt
