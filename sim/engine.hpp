// Worker side of the batch protocol. One engine binary = one property.
// stdin: one JSON command per line; stdout: one JSON reply per line (flushed).
//   {"cmd":"batch","seed":S,"from":a,"to":b,"tier":"quick","samples":k}
//   {"cmd":"exec","plan":{...}}
//   {"cmd":"plan","seed":S,"index":i,"tier":"quick"}
//   {"cmd":"quit"}
// Everything a run decides derives from Rng(seed).fork(index); no clock, no address.
#pragma once
#include "json.hpp"
#include "rng.hpp"
#include <cstdio>
#include <iostream>
#include <map>
#include <set>
#include <string>
#include <unistd.h>
#include <signal.h>

namespace sim {

struct Stats {
    std::map<std::string, int64_t> c;       // counters: fault kinds fired, reach probes, ...
    std::map<std::string, double> mx;       // maxima (e.g. largest observed deviation)
    std::set<uint64_t> distinct;            // distinct non-trivial case keys
    std::set<uint64_t> distinct2;           // second measure (e.g. interleavings)
    void inc(const std::string &k, int64_t n = 1) { c[k] += n; }
    void maxi(const std::string &k, double v) { auto it = mx.find(k); if (it == mx.end() || v > it->second) mx[k] = v; }
    void clear() { c.clear(); mx.clear(); distinct.clear(); distinct2.clear(); }
};

struct Outcome {
    bool violation = false;
    std::string cls, signature, detail;
    Hash trace;                 // hash of everything observable in the run
    bool nontrivial = true;
    uint64_t shape = 0;         // key of the case for the "distinct" count
    Json extra;                 // optional details (history excerpts) added to the replay file
    void fail(const std::string &c, const std::string &sig, const std::string &det) {
        if (violation) return;  // first violation wins: deterministic
        violation = true; cls = c; signature = sig; detail = det;
    }
};

class Engine {
public:
    virtual ~Engine() {}
    virtual const char *property() const = 0;
    virtual Json generate(Rng rng, const std::string &tier) = 0;
    virtual Outcome execute(const Json &plan, Stats &st) = 0;
};

// --- crash reporting -------------------------------------------------------------------
static volatile long long g_current_index = -1;
static volatile int g_in_exec = 0;
inline void write_crash_line(const char *why) {
    char buf[160];
    int n = snprintf(buf, sizeof buf, "\n{\"type\":\"crash\",\"index\":%lld,\"exec\":%d,\"why\":\"%s\"}\n", (long long)g_current_index, (int)g_in_exec, why);
    if (n > 0) { ssize_t r = write(1, buf, (size_t)n); (void)r; }
}
extern "C" void __sanitizer_set_death_callback(void (*)(void)) __attribute__((weak));
inline void sim_death_cb() { write_crash_line("sanitizer"); }
inline void sim_sig(int sig) {
    write_crash_line(sig == SIGSEGV ? "SIGSEGV" : sig == SIGABRT ? "SIGABRT" : sig == SIGFPE ? "SIGFPE" : sig == SIGBUS ? "SIGBUS" : "signal");
    _exit(78);
}
inline void sim_usr1(int) { write_crash_line("watchdog"); _exit(80); }
inline void sim_terminate() {
    write_crash_line("terminate");
    _exit(79);
}

inline Json outcomeJson(const Outcome &o) {
    Json r = Json::object();
    r["violation"] = o.violation;
    if (o.violation) { r["class"] = o.cls; r["signature"] = o.signature; r["detail"] = o.detail; if (!o.extra.isNull()) r["extra"] = o.extra; }
    r["hash"] = o.trace.hex();
    return r;
}

inline void emit(const Json &j) {
    std::string s = j.dump();
    s.push_back('\n');
    fwrite(s.data(), 1, s.size(), stdout);
    fflush(stdout);
}

inline int engine_main(int argc, char **argv, Engine &eng) {
    (void)argc; (void)argv;
    if (__sanitizer_set_death_callback) __sanitizer_set_death_callback(sim_death_cb);
    else { signal(SIGSEGV, sim_sig); signal(SIGABRT, sim_sig); signal(SIGFPE, sim_sig); signal(SIGBUS, sim_sig); }
    std::set_terminate(sim_terminate);
    signal(SIGUSR1, sim_usr1);
    std::ios::sync_with_stdio(false);
    std::string line;
    Stats st;
    while (std::getline(std::cin, line)) {
        if (line.empty()) continue;
        Json cmd;
        try { cmd = Json::parse(line); } catch (std::exception &e) {
            Json r = Json::object(); r["type"] = "error"; r["what"] = std::string("bad command: ") + e.what(); emit(r); continue;
        }
        std::string c = cmd.gets("cmd");
        if (c == "quit") break;
        if (c == "plan") {
            Rng root((uint64_t)cmd.geti("seed"));
            Json r = Json::object(); r["type"] = "plan";
            r["plan"] = eng.generate(root.fork((uint64_t)cmd.geti("index")), cmd.gets("tier", "quick"));
            emit(r);
        } else if (c == "exec") {
            g_in_exec = 1; g_current_index = cmd.geti("index", -1);
            st.clear();
            Outcome o = eng.execute(cmd.at("plan"), st);
            g_in_exec = 0;
            Json r = outcomeJson(o); r["type"] = "result";
            Json cs = Json::object(); for (auto &p : st.c) cs[p.first] = (long long)p.second;
            r["stats"] = cs;
            emit(r);
        } else if (c == "batch") {
            Rng root((uint64_t)cmd.geti("seed"));
            long long from = cmd.geti("from"), to = cmd.geti("to");
            std::string tier = cmd.gets("tier", "quick");
            int nsamples = (int)cmd.geti("samples", 0);
            st.clear();
            Json samples = Json::array();
            long long nontrivial = 0, violations = 0;
            uint64_t trace_digest = 0; // order-independent digest of every run's trace hash (determinism self-test)
            for (long long idx = from; idx < to; idx++) {
                g_current_index = idx;
                Json plan = eng.generate(root.fork((uint64_t)idx), tier);
                Outcome o = eng.execute(plan, st);
                trace_digest += mix64(o.trace.h ^ mix64((uint64_t)idx)) + (o.violation ? 0x9e3779b97f4a7c15ULL : 0);
                if (o.nontrivial) { nontrivial++; st.distinct.insert(o.shape ? o.shape : o.trace.h); }
                if (o.violation) {
                    violations++;
                    Json r = outcomeJson(o); r["type"] = "violation"; r["index"] = idx; r["plan"] = plan;
                    emit(r);
                }
                if ((int)samples.size() < nsamples && !o.violation) {
                    Json smp = Json::object(); smp["index"] = idx; smp["plan"] = plan; smp["hash"] = o.trace.hex();
                    samples.push(smp);
                }
            }
            g_current_index = -1;
            Json r = Json::object(); r["type"] = "batch_done"; r["from"] = from; r["to"] = to;
            r["nontrivial"] = nontrivial; r["violations"] = violations;
            Json cs = Json::object(); for (auto &p : st.c) cs[p.first] = (long long)p.second;
            r["stats"] = cs;
            Json ms = Json::object(); for (auto &p : st.mx) ms[p.first] = p.second;
            r["max"] = ms;
            Json ds = Json::array(); for (auto v : st.distinct) { char b[20]; snprintf(b, sizeof b, "%llx", (unsigned long long)v); ds.push(Json(b)); }
            r["distinct"] = ds;
            Json d2 = Json::array(); for (auto v : st.distinct2) { char b[20]; snprintf(b, sizeof b, "%llx", (unsigned long long)v); d2.push(Json(b)); }
            r["distinct2"] = d2;
            r["samples"] = samples;
            { char b[20]; snprintf(b, sizeof b, "%016llx", (unsigned long long)trace_digest); r["trace_digest"] = std::string(b); }
            emit(r);
        } else {
            Json r = Json::object(); r["type"] = "error"; r["what"] = "unknown cmd"; emit(r);
        }
    }
    return 0;
}

} // namespace sim

// Sanitizer defaults: distinct exit code, no leak checking (LSan floods under abort paths).
#ifndef SIM_SECONDARY_TU
extern "C" __attribute__((used)) const char *__asan_default_options() { return "exitcode=77:detect_leaks=0:allocator_may_return_null=1:detect_stack_use_after_return=0"; }
extern "C" __attribute__((used)) const char *__ubsan_default_options() { return "halt_on_error=1:exitcode=77:print_stacktrace=1"; }
#endif
