// See simrt.hpp. This translation unit is compiled without -fsanitize and without -fopenmp.
#include "simrt.hpp"
#include <algorithm>
#include <cerrno>
#include <cmath>
#include <cstdarg>
#include <cstdio>
#include <cstdlib>
#include <cstring>
#include <cxxabi.h>
#include <dlfcn.h>
#include <elf.h>
#include <fcntl.h>
#include <malloc.h>
#include <new>
#include <pthread.h>
#include <semaphore.h>
#include <sys/mman.h>
#include <sys/stat.h>
#include <sys/time.h>
#include <time.h>
#include <unistd.h>

namespace simrt {

static const int MAXT = 24;

static inline uint64_t mix64(uint64_t z) {
    z += 0x9e3779b97f4a7c15ULL;
    z = (z ^ (z >> 30)) * 0xbf58476d1ce4e5b9ULL;
    z = (z ^ (z >> 27)) * 0x94d049bb133111ebULL;
    return z ^ (z >> 31);
}
struct Prng {
    uint64_t s = 1;
    uint64_t next() { uint64_t z = (s += 0x9e3779b97f4a7c15ULL); z = (z ^ (z >> 30)) * 0xbf58476d1ce4e5b9ULL; z = (z ^ (z >> 27)) * 0x94d049bb133111ebULL; return z ^ (z >> 31); }
    uint64_t below(uint64_t n) { return n ? next() % n : 0; }
    double uniform() { return (double)(next() >> 11) * (1.0 / 9007199254740992.0); }
};

// ---- real functions ---------------------------------------------------------------------
template <class F> static F realfn(const char *name) { return (F)dlsym(RTLD_NEXT, name); }
#define REAL(ret, name, ...) typedef ret (*name##_fn)(__VA_ARGS__); static name##_fn real_##name() { static name##_fn f = realfn<name##_fn>(#name); return f; }
REAL(int, pthread_create, pthread_t *, const pthread_attr_t *, void *(*)(void *), void *)
REAL(int, pthread_join, pthread_t, void **)
REAL(int, pthread_detach, pthread_t)
REAL(int, pthread_mutex_lock, pthread_mutex_t *)
REAL(int, pthread_mutex_trylock, pthread_mutex_t *)
REAL(int, pthread_mutex_unlock, pthread_mutex_t *)
REAL(int, pthread_cond_wait, pthread_cond_t *, pthread_mutex_t *)
REAL(int, pthread_cond_timedwait, pthread_cond_t *, pthread_mutex_t *, const struct timespec *)
REAL(int, pthread_cond_clockwait, pthread_cond_t *, pthread_mutex_t *, clockid_t, const struct timespec *)
REAL(int, pthread_cond_signal, pthread_cond_t *)
REAL(int, pthread_cond_broadcast, pthread_cond_t *)
REAL(int, pthread_cond_destroy, pthread_cond_t *)
REAL(int, nanosleep, const struct timespec *, struct timespec *)
REAL(int, clock_nanosleep, clockid_t, int, const struct timespec *, struct timespec *)
REAL(int, clock_gettime, clockid_t, struct timespec *)
REAL(int, gettimeofday, struct timeval *, void *)
REAL(time_t, time, time_t *)
REAL(int, sched_yield, void)
REAL(int, usleep, useconds_t)
REAL(unsigned, sleep, unsigned)

// ---- tasks -------------------------------------------------------------------------------
enum St { RUNNABLE, BLK_MUTEX, BLK_COND, BLK_JOIN, BLK_SLEEP, BLK_BARRIER, BLK_IDLE, BLK_GUARD, BLK_ALL, FINISHED };

struct Team;
struct Task {
    int id = 0;
    sem_t sem;
    St st = RUNNABLE;
    void *wait_obj = nullptr;
    bool timed = false, timedout = false, spurious = false;
    double wake_time = 0;
    uint64_t park_seq = 0;
    pthread_t th;
    bool has_thread = false, joined = false, detached = false, pool = false, used = false;
    uint32_t vc[MAXT];
    int ignore = 0;
    int64_t budget = 0;
    int64_t prio = 0;
    void *(*fn)(void *) = nullptr;
    void *arg = nullptr;
    void *ret = nullptr;
    // shadow call stack (function ids)
    std::vector<uint32_t> stack;
    // omp
    Team *team = nullptr;
    int omp_tid = 0;
    unsigned ws_counter = 0;
    void *cur_ws = nullptr;
    bool pool_quit = false;
    void (*omp_fn)(void *) = nullptr;
    void *omp_data = nullptr;
};

struct Mutex { int id; int owner = -1; uint32_t vc[MAXT]; std::vector<Task *> waiters; };
struct Cond { int id; std::vector<Task *> waiters; };

static __thread Task *tl_task = nullptr;
static __thread int tl_in_rt = 0;   // >0: the runtime itself is allocating/freeing (bypass the allocation hooks)
struct Rt { Rt() { tl_in_rt++; } ~Rt() { tl_in_rt--; } };

struct Global {
    bool on = false;
    Config cfg;
    Prng rng;
    Task tasks[MAXT];
    int ntasks = 0;
    Task *cur = nullptr;
    int live = 0;                 // created and not yet joined (or active team members)
    uint64_t steps = 0, switches = 0, events = 0, preempts = 0, spurious = 0, ntask_total = 0, regions = 0, chunks = 0, jumps = 0;
    double now = 0;
    uint64_t trace = 0, synch = 0;
    std::map<void *, Mutex *> mutexes;
    std::map<void *, Cond *> conds;
    int next_mutex_id = 0, next_cond_id = 0;
    std::vector<uint64_t> pct_points;
    int64_t pct_low = 0;
    int rr_last = 0;
    std::map<std::string, long> counters;
    std::vector<Race> races;
    const char *fatal_ctx = "";
    char fatal_ctx_buf[200];
};
static Global G;

static void fatal(const char *fmt, ...) __attribute__((noreturn, format(printf, 1, 2)));
static void fatal(const char *fmt, ...) {
    char buf[1200];
    va_list ap; va_start(ap, fmt); int n = vsnprintf(buf, sizeof buf, fmt, ap); va_end(ap);
    if (n < 0) n = 0;
    if (n > (int)sizeof buf - 1) n = (int)sizeof buf - 1;
    char out[1500];
    int m = snprintf(out, sizeof out, "\nSIM-FATAL: %s\nSIM-CONTEXT: steps=%llu now=%g %s\n", buf, (unsigned long long)G.steps, G.now, G.fatal_ctx);
    ssize_t r = write(2, out, (size_t)m); (void)r;
    extern void sim_fatal_notify();
    sim_fatal_notify();
    _exit(81);
}
} // namespace simrt
// engines define this to emit the protocol's crash line (sim/engine.hpp); weak default does nothing
namespace simrt { __attribute__((weak)) void sim_fatal_notify() {} }
namespace simrt {

static inline void vc_join(uint32_t *a, const uint32_t *b) { for (int k = 0; k < MAXT; k++) if (b[k] > a[k]) a[k] = b[k]; }
static inline void vc_copy(uint32_t *a, const uint32_t *b) { for (int k = 0; k < MAXT; k++) a[k] = b[k]; }
static inline void tick(Task *t) { t->vc[t->id]++; }

static inline void tr(uint64_t a, uint64_t b, uint64_t c) { G.trace = mix64(G.trace ^ mix64(a * 1000003ULL + b * 10007ULL + c)); }
static inline void trs(uint64_t a, uint64_t b, uint64_t c) { G.synch = mix64(G.synch ^ mix64(a * 1000003ULL + b * 10007ULL + c)); tr(a, b, c); }

enum Kind { K_LOCK = 1, K_UNLOCK, K_WAIT, K_WAKE, K_SIGNAL, K_BCAST, K_CREATE, K_EXIT, K_JOIN, K_SLEEP, K_YIELD, K_PREEMPT, K_BARRIER, K_CRIT, K_CHUNK, K_FORK, K_REGION_END, K_POINT, K_TIME, K_GUARD, K_TRYLOCK };

static const char *stname(St s) {
    switch (s) { case RUNNABLE: return "runnable"; case BLK_MUTEX: return "mutex"; case BLK_COND: return "cond"; case BLK_JOIN: return "join"; case BLK_SLEEP: return "sleep";
                 case BLK_BARRIER: return "barrier"; case BLK_IDLE: return "idle"; case BLK_GUARD: return "guard"; case BLK_ALL: return "wait-all"; default: return "finished"; }
}

static void deadlock() {
    // class: sorted multiset of blocking reasons of unfinished tasks (pool threads idle are not part of it)
    char desc[600]; int n = 0; int cnt[10] = {0};
    for (int k = 0; k < G.ntasks; k++) { Task &t = G.tasks[k]; if (!t.used || t.st == FINISHED || t.st == BLK_IDLE) continue; cnt[(int)t.st]++; }
    n += snprintf(desc + n, sizeof desc - (size_t)n, "deadlock/");
    bool first = true;
    for (int s = 0; s < 10; s++) if (cnt[s]) { n += snprintf(desc + n, sizeof desc - (size_t)n, "%s%s", first ? "" : "+", stname((St)s)); first = false; }
    n += snprintf(desc + n, sizeof desc - (size_t)n, " [");
    for (int k = 0; k < G.ntasks; k++) {
        Task &t = G.tasks[k]; if (!t.used || t.st == FINISHED) continue;
        int obj = -1;
        if (t.st == BLK_MUTEX) obj = ((Mutex *)t.wait_obj)->id; else if (t.st == BLK_COND) obj = ((Cond *)t.wait_obj)->id; else if (t.st == BLK_JOIN) obj = ((Task *)t.wait_obj)->id;
        n += snprintf(desc + n, sizeof desc - (size_t)n, " task%d:%s", t.id, stname(t.st));
        if (obj >= 0) n += snprintf(desc + n, sizeof desc - (size_t)n, "#%d", obj);
        if (n > 500) break;
    }
    snprintf(desc + n, sizeof desc - (size_t)n, " ]");
    fatal("%s", desc);
}

static int64_t draw_budget() {
    if (G.cfg.preempt_mean <= 0 || G.steps > G.cfg.random_steps) return INT64_MAX / 4;
    double u = G.rng.uniform();
    double g = -std::log(1.0 - u) * G.cfg.preempt_mean;
    if (g < 1) g = 1;
    if (g > 1e15) g = 1e15;
    return (int64_t)g;
}

// make timed waiters / sleepers whose time has come runnable
static void fire_timers() {
    for (int k = 0; k < G.ntasks; k++) {
        Task &t = G.tasks[k];
        if (!t.used) continue;
        if ((t.st == BLK_SLEEP || (t.st == BLK_COND && t.timed)) && t.wake_time <= G.now) {
            if (t.st == BLK_COND) { Cond *c = (Cond *)t.wait_obj; c->waiters.erase(std::remove(c->waiters.begin(), c->waiters.end(), &t), c->waiters.end()); t.timedout = true; }
            t.st = RUNNABLE;
        }
    }
}

static Task *choose(Kind kind) {
    Task *run[MAXT]; int nr = 0;
    for (;;) {
        nr = 0;
        for (int k = 0; k < G.ntasks; k++) if (G.tasks[k].used && G.tasks[k].st == RUNNABLE) run[nr++] = &G.tasks[k];
        if (nr) break;
        // nothing runnable: advance the clock to the earliest timer
        double best = -1; bool any = false;
        for (int k = 0; k < G.ntasks; k++) { Task &t = G.tasks[k]; if (t.used && (t.st == BLK_SLEEP || (t.st == BLK_COND && t.timed))) { if (!any || t.wake_time < best) best = t.wake_time; any = true; } }
        if (!any) deadlock();
        if (best > G.now) G.now = best;
        G.jumps++;
        trs(K_TIME, (uint64_t)(G.now * 1e9), 0);
        fire_timers();
    }
    // spurious wake-up fault: wake one condition waiter for no reason (legal for pthread_cond_wait)
    bool calm = G.steps > G.cfg.random_steps; // past the interesting prefix: default schedule
    if (G.cfg.p_spurious > 0 && !calm && !G.conds.empty()) {
        if (G.rng.uniform() < G.cfg.p_spurious) {
            std::vector<Task *> ws;
            for (int k = 0; k < G.ntasks; k++) if (G.tasks[k].used && G.tasks[k].st == BLK_COND) ws.push_back(&G.tasks[k]);
            if (!ws.empty()) {
                Task *w = ws[G.rng.below(ws.size())];
                Cond *c = (Cond *)w->wait_obj; c->waiters.erase(std::remove(c->waiters.begin(), c->waiters.end(), w), c->waiters.end());
                w->st = RUNNABLE; w->spurious = true; G.spurious++;
                trs(K_WAKE, (uint64_t)w->id, 77);
                run[nr++] = w;
                std::sort(run, run + nr, [](Task *a, Task *b) { return a->id < b->id; });
            }
        }
    }
    Task *me = G.cur;
    bool me_runnable = me && me->st == RUNNABLE;
    Task *next = nullptr;
    switch (calm ? (int)RUN_TO_BLOCK : G.cfg.strategy) {
    case RUN_TO_BLOCK:
        next = me_runnable && kind != K_YIELD && kind != K_SLEEP ? me : nullptr;
        if (!next) { // next in id order after me
            int base = me ? me->id : -1;
            for (int k = 0; k < nr; k++) if (run[k]->id > base) { next = run[k]; break; }
            if (!next) next = run[0];
        }
        break;
    case ROUND_ROBIN: {
        int base = me ? me->id : -1;
        if (me_runnable && kind == K_PREEMPT) { /* quantum expired: rotate */ }
        else if (me_runnable && G.rng.uniform() < 0.7) { next = me; break; }
        for (int k = 0; k < nr; k++) if (run[k]->id > base) { next = run[k]; break; }
        if (!next) next = run[0];
        break; }
    case PCT: {
        // priority change points over scheduling steps
        while (!G.pct_points.empty() && G.steps >= G.pct_points.back()) { G.pct_points.pop_back(); if (me) me->prio = --G.pct_low; }
        next = run[0];
        for (int k = 1; k < nr; k++) if (run[k]->prio > next->prio) next = run[k];
        break; }
    case STARVE_ONE: {
        Task *cand[MAXT]; int nc = 0;
        for (int k = 0; k < nr; k++) if (run[k]->id != G.cfg.starve) cand[nc++] = run[k];
        if (nc == 0) next = run[0]; else next = cand[G.rng.below((uint64_t)nc)];
        break; }
    default:
        next = run[G.rng.below((uint64_t)nr)];
    }
    return next;
}

static void hand_over(Task *me, Task *next, bool wait) {
    G.cur = next;
    if (next != me) {
        G.switches++;
        next->budget = draw_budget();
        sem_post(&next->sem);
        if (wait) { while (sem_wait(&me->sem) != 0) {} }
    } else if (me->budget <= 0) me->budget = draw_budget();
}

// scheduling point of the running task (its state may already be a blocked one)
static void schedule(Kind kind, uint64_t obj) {
    Rt rt_scope;
    Task *me = tl_task;
    G.steps++;
    if (G.steps > G.cfg.step_cap) fatal("step-cap (more than %llu scheduling steps)", (unsigned long long)G.cfg.step_cap);
    Task *next = choose(kind);
    if (kind == K_PREEMPT) tr(kind, obj, (uint64_t)next->id); else trs(kind, obj, (uint64_t)(me->id * 64 + next->id));
    hand_over(me, next, true);
}

static Task *new_task() {
    int slot = -1;
    for (int k = 0; k < G.ntasks; k++) if (G.tasks[k].used && G.tasks[k].st == FINISHED && G.tasks[k].joined && !G.tasks[k].pool) { slot = k; break; }
    if (slot < 0) { if (G.ntasks >= MAXT) fatal("machinery: more than %d simulated tasks", MAXT); slot = G.ntasks++; }
    Task &t = G.tasks[slot];
    uint32_t old = t.used ? t.vc[slot] : 0;
    bool hadsem = t.used;
    t.id = slot; t.st = RUNNABLE; t.wait_obj = nullptr; t.timed = t.timedout = t.spurious = false; t.has_thread = false; t.joined = false; t.detached = false; t.pool = false;
    t.ignore = 0; t.budget = draw_budget(); t.fn = nullptr; t.arg = nullptr; t.ret = nullptr; t.stack.clear(); t.team = nullptr; t.omp_tid = 0; t.ws_counter = 0; t.cur_ws = nullptr; t.pool_quit = false;
    memset(t.vc, 0, sizeof t.vc);
    t.vc[slot] = old;
    if (!hadsem) sem_init(&t.sem, 0, 0);
    t.used = true;
    t.prio = (int64_t)(G.rng.next() >> 8) + 1000000;
    G.ntask_total++;
    return &t;
}

static void finish_task(Task *me); // below

static void *trampoline(void *p) {
    Task *t = (Task *)p;
    tl_task = t;
    while (sem_wait(&t->sem) != 0) {}
    t->ret = t->fn(t->arg);
    finish_task(t);
    return t->ret;
}

static void wake_joiners(Task *t) {
    for (int k = 0; k < G.ntasks; k++) { Task &o = G.tasks[k]; if (o.used && o.st == BLK_JOIN && o.wait_obj == t) o.st = RUNNABLE; }
    // body waiting for everything
    bool all = true;
    for (int k = 1; k < G.ntasks; k++) if (G.tasks[k].used && G.tasks[k].st != FINISHED) all = false;
    if (all && G.tasks[0].st == BLK_ALL) G.tasks[0].st = RUNNABLE;
}

static void finish_task(Task *me) {
    Rt rt_scope;
    tick(me);
    me->st = FINISHED;
    wake_joiners(me);
    G.steps++;
    Task *next = choose(K_EXIT);
    trs(K_EXIT, (uint64_t)me->id, (uint64_t)next->id);
    tl_task = nullptr;
    hand_over(me, next, false);
}

static Task *spawn(void *(*fn)(void *), void *arg, const pthread_attr_t *attr, bool pool) {
    Rt rt_scope;
    Task *me = tl_task;
    Task *t = new_task();
    t->fn = fn; t->arg = arg; t->pool = pool;
    vc_join(t->vc, me->vc);
    t->vc[t->id]++;
    tick(me);
    int rc = real_pthread_create()(&t->th, attr, trampoline, t);
    if (rc != 0) fatal("machinery: real pthread_create failed (%d)", rc);
    t->has_thread = true;
    if (!pool) G.live++;
    return t;
}

static Mutex *get_mutex(void *m) {
    Rt rt_scope;
    auto it = G.mutexes.find(m);
    if (it != G.mutexes.end()) return it->second;
    Mutex *M = new Mutex(); M->id = G.next_mutex_id++; memset(M->vc, 0, sizeof M->vc);
    G.mutexes[m] = M; return M;
}
static Cond *get_cond(void *c) {
    Rt rt_scope;
    auto it = G.conds.find(c);
    if (it != G.conds.end()) return it->second;
    Cond *C = new Cond(); C->id = G.next_cond_id++;
    G.conds[c] = C; return C;
}

static void mutex_acquire(Task *me, Mutex *M) {
    Rt rt_scope;
    while (M->owner != -1) {
        if (M->owner == me->id) fatal("deadlock/relock (task %d locks mutex #%d it already holds)", me->id, M->id);
        me->st = BLK_MUTEX; me->wait_obj = M; M->waiters.push_back(me);
        schedule(K_LOCK, (uint64_t)M->id);
    }
    M->owner = me->id;
    vc_join(me->vc, M->vc);
}
static void mutex_release(Task *me, Mutex *M) {
    Rt rt_scope;
    if (M->owner != me->id) fatal("machinery: task %d unlocks mutex #%d owned by %d", me->id, M->id, M->owner);
    vc_copy(M->vc, me->vc); tick(me);
    M->owner = -1;
    for (Task *w : M->waiters) if (w->st == BLK_MUTEX && w->wait_obj == M) w->st = RUNNABLE;
    M->waiters.clear();
}

static int cond_wait_common(pthread_cond_t *c, pthread_mutex_t *m, bool timed, double deadline) {
    Rt rt_scope;
    Task *me = tl_task;
    Cond *C = get_cond(c); Mutex *M = get_mutex(m);
    mutex_release(me, M);
    me->st = BLK_COND; me->wait_obj = C; me->timed = timed; me->wake_time = deadline; me->timedout = false; me->spurious = false; me->park_seq = G.steps;
    C->waiters.push_back(me);
    if (timed && deadline <= G.now) fire_timers();
    schedule(K_WAIT, (uint64_t)C->id);
    bool to = me->timedout; me->timed = false;
    mutex_acquire(me, M);
    return to ? ETIMEDOUT : 0;
}

static double ts2d(const struct timespec *ts) { return (double)ts->tv_sec + 1e-9 * (double)ts->tv_nsec; }
static const double EPOCH0 = 1700000000.0; // simulated wall clock starts here

static void sim_sleep(double s) {
    Task *me = tl_task;
    if (s < 0) s = 0;
    me->st = BLK_SLEEP; me->wake_time = G.now + s;
    schedule(K_SLEEP, (uint64_t)(s * 1e9));
}

// ---- public API ------------------------------------------------------------------------------
bool active() { return tl_task != nullptr; }
int task_id() { return tl_task ? tl_task->id : -1; }
uint64_t seq() { return G.steps; }
double now() { return G.now; }
void sleep(double s) { if (tl_task) sim_sleep(s); }
void point(const char *label) { if (tl_task) { uint64_t h = 0; for (const char *c = label; c && *c; c++) h = h * 131 + (unsigned char)*c; schedule(K_POINT, h & 0xffff); } }
void ignore_begin() { if (tl_task) tl_task->ignore++; }
void ignore_end() { if (tl_task) tl_task->ignore--; }
void count(const char *name, long n) { Rt rt_scope; if (G.on) G.counters[name] += n; }
void set_fatal_context(const char *text) { snprintf(G.fatal_ctx_buf, sizeof G.fatal_ctx_buf, "%s", text ? text : ""); G.fatal_ctx = G.fatal_ctx_buf; }

} // namespace simrt

#include "simrt_race.inc"
#include "simrt_gomp.inc"

namespace simrt {

Result run(const Config &cfg, const std::function<void()> &body) {
    tl_in_rt++;
    if (G.on || tl_task) fatal("machinery: nested simrt::run");
    // reset
    for (auto &p : G.mutexes) delete p.second;
    for (auto &p : G.conds) delete p.second;
    G.mutexes.clear(); G.conds.clear(); G.next_mutex_id = G.next_cond_id = 0;
    for (int k = 0; k < MAXT; k++) { Task &t = G.tasks[k]; if (t.used) { sem_destroy(&t.sem); } t.used = false; t.stack.clear(); }
    G.ntasks = 0; G.live = 0; G.steps = G.switches = G.events = G.preempts = G.spurious = G.ntask_total = G.regions = G.chunks = G.jumps = 0;
    G.now = 0; G.trace = 0x1234; G.synch = 0x5678; G.counters.clear(); G.races.clear();
    G.cfg = cfg; G.rng.s = mix64(cfg.seed ^ 0x5ced5ced5cedULL);
    G.pct_points.clear(); G.pct_low = 0; G.rr_last = 0;
    if (cfg.strategy == PCT) {
        for (int k = 0; k < cfg.pct_depth; k++) G.pct_points.push_back(1 + G.rng.below(std::max<uint64_t>(cfg.pct_events, 2)));
        std::sort(G.pct_points.begin(), G.pct_points.end(), [](uint64_t a, uint64_t b) { return a > b; });
    }
    race_reset();
    gomp_reset();
    G.on = true;
    Task *main = new_task();
    main->vc[0] = 1;
    G.cur = main; G.live = 1;
    tl_task = main;
    main->budget = draw_budget();
    tl_in_rt--;
    body();
    tl_in_rt++;
    // wait until every other task has finished (leaked threads / pool)
    gomp_shutdown();
    bool others = false;
    for (int k = 1; k < G.ntasks; k++) if (G.tasks[k].used && G.tasks[k].st != FINISHED) others = true;
    if (others) { main->st = BLK_ALL; schedule(K_JOIN, 999); }
    tl_task = nullptr;
    G.on = false;
    // reap real threads that were never joined by the code under test
    for (int k = 1; k < G.ntasks; k++) { Task &t = G.tasks[k]; if (t.used && t.has_thread && !t.joined && !t.detached) { real_pthread_join()(t.th, nullptr); t.joined = true; } }
    Result r;
    r.completed = true; r.steps = G.steps; r.switches = G.switches; r.mem_events = G.events; r.preemptions = G.preempts; r.spurious = G.spurious; r.tasks = G.ntask_total;
    r.regions = G.regions; r.chunks = G.chunks; r.timed_jumps = G.jumps; r.sim_time = G.now; r.trace_hash = G.trace; r.sync_hash = G.synch; r.counters = G.counters;
    race_finish(r);
    for (auto &p : g_region_fns) r.omp_regions[fn_name(fn_lookup(p.first))] += p.second;
    tl_in_rt--;
    return r;
}

} // namespace simrt

// ==== interposed entry points =======================================================================
using namespace simrt;
extern "C" {

int pthread_create(pthread_t *th, const pthread_attr_t *attr, void *(*fn)(void *), void *arg) {
    if (!tl_task) return real_pthread_create()(th, attr, fn, arg);
    Rt rt_scope;
    Task *t = spawn(fn, arg, attr, false);
    *th = t->th;
    schedule(K_CREATE, (uint64_t)t->id);
    return 0;
}

static Task *find_by_thread(pthread_t th) {
    for (int k = 0; k < G.ntasks; k++) if (G.tasks[k].used && G.tasks[k].has_thread && !G.tasks[k].joined && pthread_equal(G.tasks[k].th, th)) return &G.tasks[k];
    return nullptr;
}

int pthread_join(pthread_t th, void **ret) {
    Task *me = tl_task;
    if (!me) return real_pthread_join()(th, ret);
    Rt rt_scope;
    Task *t = find_by_thread(th);
    if (!t) return real_pthread_join()(th, ret);
    schedule(K_JOIN, (uint64_t)t->id);
    while (t->st != FINISHED) { me->st = BLK_JOIN; me->wait_obj = t; schedule(K_JOIN, (uint64_t)t->id); }
    vc_join(me->vc, t->vc);
    t->joined = true; G.live--;
    return real_pthread_join()(th, ret);
}

int pthread_detach(pthread_t th) {
    if (tl_task) { Task *t = find_by_thread(th); if (t) t->detached = true; }
    return real_pthread_detach()(th);
}

int pthread_mutex_lock(pthread_mutex_t *m) {
    Task *me = tl_task;
    if (!me) return real_pthread_mutex_lock()(m);
    Rt rt_scope;
    Mutex *M = get_mutex(m);
    schedule(K_LOCK, (uint64_t)M->id);
    mutex_acquire(me, M);
    return 0;
}
int pthread_mutex_trylock(pthread_mutex_t *m) {
    Task *me = tl_task;
    if (!me) return real_pthread_mutex_trylock()(m);
    Rt rt_scope;
    Mutex *M = get_mutex(m);
    schedule(K_TRYLOCK, (uint64_t)M->id);
    if (M->owner != -1) return EBUSY;
    mutex_acquire(me, M);
    return 0;
}
int pthread_mutex_unlock(pthread_mutex_t *m) {
    Task *me = tl_task;
    if (!me) return real_pthread_mutex_unlock()(m);
    Rt rt_scope;
    Mutex *M = get_mutex(m);
    mutex_release(me, M);
    schedule(K_UNLOCK, (uint64_t)M->id);
    return 0;
}

int pthread_cond_wait(pthread_cond_t *c, pthread_mutex_t *m) {
    if (!tl_task) return real_pthread_cond_wait()(c, m);
    Rt rt_scope;
    return cond_wait_common(c, m, false, 0);
}
int pthread_cond_timedwait(pthread_cond_t *c, pthread_mutex_t *m, const struct timespec *ts) {
    if (!tl_task) return real_pthread_cond_timedwait()(c, m, ts);
    Rt rt_scope;
    return cond_wait_common(c, m, true, ts2d(ts) - EPOCH0);
}
int pthread_cond_clockwait(pthread_cond_t *c, pthread_mutex_t *m, clockid_t clk, const struct timespec *ts) {
    if (!tl_task) return real_pthread_cond_clockwait()(c, m, clk, ts);
    Rt rt_scope;
    double d = ts2d(ts);
    if (clk == CLOCK_REALTIME) d -= EPOCH0;
    return cond_wait_common(c, m, true, d);
}
int pthread_cond_signal(pthread_cond_t *c) {
    Task *me = tl_task;
    if (!me) return real_pthread_cond_signal()(c);
    Rt rt_scope;
    Cond *C = get_cond(c);
    if (!C->waiters.empty()) {
        size_t k = 0;
        if (G.steps > G.cfg.random_steps) k = 0;
        else if (G.cfg.signal_policy == 0) k = (size_t)G.rng.below(C->waiters.size());
        else if (G.cfg.signal_policy == 2) k = C->waiters.size() - 1;
        Task *w = C->waiters[k];
        C->waiters.erase(C->waiters.begin() + (long)k);
        w->st = RUNNABLE;
        trs(K_WAKE, (uint64_t)w->id, (uint64_t)C->id);
    }
    schedule(K_SIGNAL, (uint64_t)C->id);
    return 0;
}
int pthread_cond_broadcast(pthread_cond_t *c) {
    Task *me = tl_task;
    if (!me) return real_pthread_cond_broadcast()(c);
    Rt rt_scope;
    Cond *C = get_cond(c);
    for (Task *w : C->waiters) w->st = RUNNABLE;
    C->waiters.clear();
    schedule(K_BCAST, (uint64_t)C->id);
    return 0;
}
int pthread_cond_destroy(pthread_cond_t *c) {
    if (tl_task) {
        Rt rt_scope;
        auto it = G.conds.find(c);
        if (it != G.conds.end()) {
            if (!it->second->waiters.empty()) fatal("cond-destroyed-with-waiters (condition variable #%d destroyed while %zu task(s) wait on it)", it->second->id, it->second->waiters.size());
            delete it->second; G.conds.erase(it);
        }
        return 0;
    }
    return real_pthread_cond_destroy()(c);
}

int sched_yield(void) {
    if (!tl_task) return real_sched_yield()();
    Rt rt_scope;
    schedule(K_YIELD, 0);
    return 0;
}
int nanosleep(const struct timespec *req, struct timespec *rem) {
    if (!tl_task) return real_nanosleep()(req, rem);
    Rt rt_scope;
    sim_sleep(ts2d(req));
    if (rem) { rem->tv_sec = 0; rem->tv_nsec = 0; }
    return 0;
}
int clock_nanosleep(clockid_t clk, int flags, const struct timespec *req, struct timespec *rem) {
    if (!tl_task) return real_clock_nanosleep()(clk, flags, req, rem);
    Rt rt_scope;
    double d = ts2d(req);
    if (flags & TIMER_ABSTIME) { if (clk == CLOCK_REALTIME) d -= EPOCH0; d -= G.now; }
    sim_sleep(d);
    if (rem) { rem->tv_sec = 0; rem->tv_nsec = 0; }
    return 0;
}
int usleep(useconds_t us) {
    if (!tl_task) return real_usleep()(us);
    Rt rt_scope;
    sim_sleep(1e-6 * (double)us);
    return 0;
}
unsigned sleep(unsigned s) {
    if (!tl_task) return real_sleep()(s);
    Rt rt_scope;
    sim_sleep((double)s);
    return 0;
}
int clock_gettime(clockid_t clk, struct timespec *ts) {
    if (!tl_task) return real_clock_gettime()(clk, ts);
    Rt rt_scope;
    double t = G.now + (clk == CLOCK_REALTIME ? EPOCH0 : 0.0);
    ts->tv_sec = (time_t)t; ts->tv_nsec = (long)((t - (double)ts->tv_sec) * 1e9);
    return 0;
}
int gettimeofday(struct timeval *tv, void *tz) {
    if (!tl_task) return real_gettimeofday()(tv, tz);
    Rt rt_scope;
    double t = G.now + EPOCH0;
    tv->tv_sec = (time_t)t; tv->tv_usec = (long)((t - (double)tv->tv_sec) * 1e6);
    return 0;
}
time_t time(time_t *out) {
    if (!tl_task) return real_time()(out);
    Rt rt_scope;
    time_t t = (time_t)(G.now + EPOCH0);
    if (out) *out = t;
    return t;
}

// ---- function-local statics ------------------------------------------------------------------
// guard layout (Itanium ABI): byte 0 = initialised; we use byte 1 = in progress
int __cxa_guard_acquire(long long *g) {
    volatile char *b = (volatile char *)g;
    if (b[0]) return 0;
    Task *me = tl_task;
    while (b[1]) {
        if (!me) { real_sched_yield()(); if (b[0]) return 0; continue; }
        me->st = BLK_GUARD; me->wait_obj = (void *)g;
        schedule(K_GUARD, 0);
        if (b[0]) return 0;
    }
    if (b[0]) return 0;
    b[1] = 1;
    return 1;
}
static void guard_wake(long long *g) {
    if (!G.on) return;
    for (int k = 0; k < G.ntasks; k++) if (G.tasks[k].used && G.tasks[k].st == BLK_GUARD && G.tasks[k].wait_obj == (void *)g) G.tasks[k].st = RUNNABLE;
}
void __cxa_guard_release(long long *g) { volatile char *b = (volatile char *)g; b[0] = 1; b[1] = 0; guard_wake(g); }
void __cxa_guard_abort(long long *g) { volatile char *b = (volatile char *)g; b[1] = 0; guard_wake(g); }

} // extern "C"
