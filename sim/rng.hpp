// One integer decides everything: splitmix64 streams, forked by name or index.
#pragma once
#include <cstdint>
#include <cstring>
#include <string>
#include <vector>

namespace sim {

inline uint64_t mix64(uint64_t z) {
    z += 0x9e3779b97f4a7c15ULL;
    z = (z ^ (z >> 30)) * 0xbf58476d1ce4e5b9ULL;
    z = (z ^ (z >> 27)) * 0x94d049bb133111ebULL;
    return z ^ (z >> 31);
}

struct Hash {
    uint64_t h = 0xcbf29ce484222325ULL;
    void u64(uint64_t v) { h = mix64(h ^ v); }
    void i(int64_t v) { u64((uint64_t)v); }
    void d(double v) { uint64_t u; memcpy(&u, &v, 8); u64(u); }
    void s(const std::string &v) { for (unsigned char c : v) h = (h ^ c) * 0x100000001b3ULL; u64(v.size()); }
    void bytes(const void *p, size_t n) { const unsigned char *c = (const unsigned char *)p; for (size_t k = 0; k < n; k++) h = (h ^ c[k]) * 0x100000001b3ULL; u64(n); }
    template <class T> void vec(const std::vector<T> &v) { for (auto const &x : v) add(x); u64(v.size()); }
    void add(int v) { i(v); }
    void add(long v) { i(v); }
    void add(unsigned long v) { u64(v); }
    void add(double v) { d(v); }
    void add(const std::string &v) { s(v); }
    std::string hex() const { char b[20]; snprintf(b, sizeof b, "%016llx", (unsigned long long)h); return b; }
};

class Rng {
public:
    uint64_t state;
    explicit Rng(uint64_t seed = 0) : state(seed) {}
    uint64_t next() {
        uint64_t z = (state += 0x9e3779b97f4a7c15ULL);
        z = (z ^ (z >> 30)) * 0xbf58476d1ce4e5b9ULL;
        z = (z ^ (z >> 27)) * 0x94d049bb133111ebULL;
        return z ^ (z >> 31);
    }
    Rng fork(uint64_t k) const { return Rng(mix64(state ^ mix64(k + 0x1234567ULL))); }
    Rng fork(const char *name) const {
        uint64_t h = 0xcbf29ce484222325ULL;
        for (const char *c = name; *c; c++) h = (h ^ (unsigned char)*c) * 0x100000001b3ULL;
        return Rng(mix64(state ^ h));
    }
    // uniform in [0,1)
    double uniform() { return (double)(next() >> 11) * (1.0 / 9007199254740992.0); }
    double uniform(double a, double b) { return a + (b - a) * uniform(); }
    // integer in [0,n)
    uint64_t below(uint64_t n) { return n ? next() % n : 0; }
    // integer in [a,b]
    int range(int a, int b) { return a + (int)below((uint64_t)(b - a + 1)); }
    bool chance(double p) { return uniform() < p; }
    template <class T> const T &pick(const std::vector<T> &v) { return v[below(v.size())]; }
    template <class T> T pick(std::initializer_list<T> l) { std::vector<T> v(l); return v[below(v.size())]; }
    template <class T> void shuffle(std::vector<T> &v) {
        for (size_t k = v.size(); k > 1; k--) { size_t j = below(k); std::swap(v[k - 1], v[j]); }
    }
};

} // namespace sim
