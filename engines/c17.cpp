// C17 — crash/restart simulation of constructSurrogate() with a checkpoint file.
// The process that runs constructSurrogate is killed at a seeded event (file-system event
// boundary, torn write at a byte offset, model-call boundary) under the process-kill model of
// sim/simfs.hpp; a new process restarts on the surviving file image with a fresh grid of a
// different rule, possibly killed again; the last one runs to completion. Oracles over the
// recorded history: recovery source and integrity, bounded re-computation, completion.
#include "sim/engine.hpp"
#include "sim/tsg_common.hpp"
#include "sim/simfs.hpp"
#ifdef C17_PARALLEL
// parallel mode: the same crash/restart engine, but every process runs constructCommon<mode_parallel> under the thread
// simulator (sim/simrt): the kill instant is a file-system or model event of a seeded thread schedule, so it can fall while
// workers hold samples that have been computed but not yet collected (thr flavour: no ASan, the race detector is off here - C18 owns races)
#include "sim/simrt.hpp"
namespace simrt { void sim_fatal_notify() { sim::write_crash_line("sim-fatal"); } }
#else
#include "sim/newdelete.hpp"
#endif
#include "TasmanianAddons.hpp"
#include <set>
#include <typeinfo>

using namespace sim;
using namespace tsgsim;

namespace {

const char *MAIN = "/simfs/ckpt";
const char *OLD = "/simfs/ckpt_old";

struct Pt { std::vector<double> x; bool operator<(const Pt &o) const { return x < o.x; } };
Pt rounded(const double *x, int d) { Pt p; p.x.resize((size_t)d); for (int k = 0; k < d; k++) p.x[k] = std::round(x[k] * 1e10) / 1e10 + 0.0; return p; }

struct Decoded { bool ok = false; std::set<Pt> loaded, stored; std::string err; };
Decoded decode(const std::string &bytes, int d) {
    Decoded D;
    try {
        std::istringstream is(bytes);
        TasmanianSparseGrid g; g.read(is, TasGrid::mode_binary);
        size_t np = 0, nv = 0;
        is.read((char *)&np, sizeof np); is.read((char *)&nv, sizeof nv);
        if (!is.good() || np > bytes.size() || nv > bytes.size()) { D.err = "bad tail"; return D; }
        std::vector<double> pts(np), vals(nv);
        if (np) is.read((char *)pts.data(), (std::streamsize)(np * 8));
        if (nv) is.read((char *)vals.data(), (std::streamsize)(nv * 8));
        if (is.fail()) { D.err = "short tail"; return D; }
        std::vector<double> lp = g.getNumOutputs() > 0 ? g.getLoadedPoints() : std::vector<double>();
        for (size_t i = 0; i + d <= lp.size(); i += (size_t)d) D.loaded.insert(rounded(&lp[i], d));
        for (size_t i = 0; i + d <= pts.size(); i += (size_t)d) D.stored.insert(rounded(&pts[i], d));
        D.ok = true;
    } catch (std::exception &e) { D.err = e.what(); }
    return D;
}

// the state a process continues from when it recovers the checkpoint 'bytes': grid, construction started, stored samples loaded
std::string expectedStart(const std::string &bytes) {
    try {
        std::istringstream is(bytes);
        TasmanianSparseGrid g; g.read(is, TasGrid::mode_binary);
        size_t np = 0, nv = 0; is.read((char *)&np, sizeof np); is.read((char *)&nv, sizeof nv);
        if (is.fail() || np > bytes.size() || nv > bytes.size()) return "<undecodable>";
        std::vector<double> pts(np), vals(nv);
        if (np) is.read((char *)pts.data(), (std::streamsize)(np * 8));
        if (nv) is.read((char *)vals.data(), (std::streamsize)(nv * 8));
        if (is.fail()) return "<undecodable>";
        if (!g.isUsingConstruction()) g.beginConstruction();
        if (!pts.empty()) g.loadConstructedPoints(pts, vals);
        std::ostringstream os; g.write(os, TasGrid::mode_binary); return os.str();
    } catch (std::exception &) { return "<undecodable>"; }
}

// phase of the checkpoint protocol each recorded event belongs to
std::vector<std::string> phasesOf(const std::vector<simfs::Event> &ev) {
    std::vector<std::string> ph; int truncs = 0, copyCloses = 0; std::string mode = "recovery";
    for (auto &e : ev) {
        std::string p;
        if (e.kind == "model") p = "between";
        else if (mode == "copy") { p = "backup-copy"; if (e.kind == "close") { copyCloses++; if (copyCloses == 2) mode = "between"; } }
        else if (e.kind == "open-read" && e.path == MAIN && truncs > 0) { mode = "copy"; copyCloses = 0; p = "backup-copy"; }
        else if (e.kind == "open-trunc" && e.path == MAIN) { mode = truncs == 0 ? "initial" : "rewrite"; truncs++; p = mode; }
        else if (mode == "initial" || mode == "rewrite") { p = mode; if (e.kind == "close" && e.path == MAIN) mode = "between"; }
        else p = truncs == 0 ? "recovery" : "between";
        ph.push_back(p);
    }
    return ph;
}

struct ProcLog {
    std::vector<size_t> completed_calls;  // number of model points computed by this process when each of 'completed' was written
    std::vector<std::string> completed;   // main-file contents each time a write of it was completed before the kill
    std::vector<std::string> ghost;       // ... completed by the ghost after the kill (the in-progress checkpoint comes first)
    std::vector<Pt> model_calls;          // points passed to the model before the kill
    bool killed = false;
    std::string start_state;              // serialised grid at the first candidate refresh (the state the process continues from)
    bool start_before_kill = false;
    std::string escaped;                  // exception that escaped constructSurrogate
    long events = 0;
};

class C17 : public Engine {
public:
    const char *property() const override { return "C17"; }

    Json generate(Rng rng, const std::string &tier) override {
        Rng w = rng.fork("workload"), f = rng.fork("faults");
        Json p = Json::object();
        GenOpts go; go.min_outs = 1; go.max_outs = 2; go.nested_only = true; go.max_depth = 2; go.max_points = 40; go.transforms = w.chance(0.3); go.optimized_rules = false;
        Json mk = genMake(w, go);
        Json mk2 = Json::object(); for (auto &kv : mk.o) if (kv.first != "conformal") mk2[kv.first] = kv.second;
        p["make"] = mk2;
        int d = (int)mk2.geti("dims");
#ifdef C17_PARALLEL
        p["mode"] = "par";
        { Rng s = rng.fork("schedule"); Json sc = Json::object(); sc["seed"] = (long long)(s.next() >> 12); sc["strategy"] = s.pick<int>({1, 1, 1, 2, 2, 0, 3, 4}); sc["pct_depth"] = s.range(0, 3); sc["pct_events"] = s.pick<int>({50, 300, 1500});
          sc["starve"] = s.range(0, 3); sc["p_spurious"] = s.pick<double>({0.0, 0.0, 0.05}); sc["signal_policy"] = s.range(0, 2); sc["latency"] = s.pick<std::string>({"zero", "uniform", "slow-one"}); sc["lat_seed"] = (long long)(s.next() >> 40); p["sched"] = sc; }
#else
        p["mode"] = "seq";
#endif
        p["jobs"] = w.range(1, 4); p["batch"] = w.range(1, 3);
        p["budget"] = w.pick<int>({5, 8, 12, 20, 30, 45, 60});
        p["tol"] = w.pick<double>({1e-2, 1e-3, 1e-5}); p["criteria"] = w.pick<std::string>({"classic", "parents", "direction", "fds", "stable"});
        std::string t = w.pick<std::string>({"iptotal", "level", "ipcurved", "iphyperbolic"});
        p["type"] = t; p["aniso"] = genAniso(w, d, t, 1.0); p["by_output"] = w.chance(0.3);
        p["initial_guess"] = w.chance(0.2);
        Json cr = Json::array();
        int nk = tier == "thorough" ? f.range(1, 3) : f.pick<int>({0, 1, 1, 1, 1, 2, 2, 2, 3});
        for (int k = 0; k < nk; k++) {
            Json c = Json::object();
            c["at"] = f.uniform();   // position among the candidate events of the process it hits
            c["bias"] = f.pick<std::string>({"any", "any", "checkpoint", "checkpoint", "first-checkpoint", "model"});
            c["tear"] = f.pick<double>({0.0, 0.0, 0.001, 0.5, 0.999, f.uniform()});
            cr.push(c);
        }
        p["crashes"] = cr;
        // blind-spot configuration: with 1000 or more loaded points constructSurrogate() stops loading every sample at once, the
        // checkpoint then ends with a non-empty block of stored samples (CompleteStorage) that the small workloads never produce
        bool large = w.chance(tier == "thorough" ? 0.06 : 0.04);
        if (large) {
            Json lg = Json::object();
            std::string lf = w.pick<std::string>({"localp", "localp", "semi-localp", "fourier"}); // 1000-point sequence/global grids take minutes per construction step
            lg["family"] = lf; p["large"] = lg;
            p["budget_extra"] = w.range(4, 24);
            for (auto &c : cr.a) { c["bias"] = f.pick<std::string>({"checkpoint", "checkpoint", "any"}); c["tear"] = f.pick<double>({-1.0, -3.0, -8.0, -17.0, -40.0, 0.999, 0.5, f.uniform()}); }
        }
        bool sweep = !large && (tier == "thorough" ? f.chance(0.35) : f.chance(0.04));
        if (sweep) { p["sweep"] = true; p["sweep_tear"] = f.uniform(); p["sweep_second"] = (tier == "thorough" && f.chance(0.15)) ? f.range(4, 12) : 0; p["budget"] = std::min<int>((int)p["budget"].integer(), 20); }
        Json sh = Json::object(); sh["lists"] = Json::from(std::vector<std::string>{"crashes"}); sh["ints"] = Json::from(std::vector<std::string>{"budget", "jobs", "batch", "make.depth", "make.outs", "make.dims"});
        Json mn = Json::object(); mn["make.dims"] = 1; mn["make.outs"] = 1; mn["budget"] = 1; mn["jobs"] = 1; mn["batch"] = 1; sh["min"] = mn; p["_shrink"] = sh;
        return p;
    }

    // process 0 starts with the configured grid, restarts with a visibly different rule
    static void makeLarge(TasmanianSparseGrid &g, const std::string &fam, int outs) {
        if (fam == "localp") g.makeLocalPolynomialGrid(2, outs, 8, 1, TasGrid::rule_localp);
        else if (fam == "semi-localp") g.makeLocalPolynomialGrid(3, outs, 6, 2, TasGrid::rule_semilocalp);
        else if (fam == "fourier") g.makeFourierGrid(2, outs, 5, TasGrid::type_level);
        else if (fam == "sequence") g.makeSequenceGrid(2, outs, 44, TasGrid::type_level, TasGrid::rule_rleja);
        else g.makeGlobalGrid(2, outs, 8, TasGrid::type_level, TasGrid::rule_clenshawcurtis);
        std::vector<double> v = modelValues(g.getNeededPoints(), g.getNumDimensions(), outs);
        g.loadNeededValues(v);
    }
    static int largeDims(const std::string &fam) { return fam == "semi-localp" ? 3 : 2; }
    static int largeSize(const std::string &fam) {
        static std::map<std::string, int> cache;
        auto it = cache.find(fam);
        if (it != cache.end()) return it->second;
        TasmanianSparseGrid g; makeLarge(g, fam, 1);
        return cache[fam] = g.getNumLoaded();
    }
    // the grid the user passes to constructSurrogate(): process 0 starts with the configured grid, restarts with a visibly different rule
    static void makeUserGrid(TasmanianSparseGrid &g, const Json &p, int process) {
        if (!p.has("large")) { makeStartGrid(g, p.at("make"), process); return; }
        std::string fam = p.at("large").gets("family");
        if (process == 0) { makeLarge(g, fam, 1); return; }
        if (fam == "localp") g.makeLocalPolynomialGrid(2, 1, 1, 2, TasGrid::rule_localp);
        else if (fam == "semi-localp") g.makeLocalPolynomialGrid(3, 1, 1, 1, TasGrid::rule_localp);
        else if (fam == "fourier") g.makeFourierGrid(2, 1, 1, TasGrid::type_level);
        else if (fam == "sequence") g.makeSequenceGrid(2, 1, 2, TasGrid::type_level, TasGrid::rule_leja);
        else g.makeGlobalGrid(2, 1, 1, TasGrid::type_level, TasGrid::rule_leja);
    }
    static int planBudget(const Json &p) { return p.has("large") ? largeSize(p.at("large").gets("family")) + (int)p.geti("budget_extra", 10) : (int)std::max<int64_t>(1, p.geti("budget", 10)); }
    static int planDims(const Json &p) { return p.has("large") ? largeDims(p.at("large").gets("family")) : (int)std::max<int64_t>(1, p.at("make").geti("dims", 1)); }
    static void makeStartGrid(TasmanianSparseGrid &g, const Json &mk, int process) {
        if (process == 0) { doMake(g, mk); return; }
        Json m = Json::object(); for (auto &kv : mk.o) m[kv.first] = kv.second;
        std::string fam = mk.gets("family");
        if (fam == "global" || fam == "sequence") m["rule"] = mk.gets("rule") == "rleja" ? "leja" : "rleja";
        else if (fam == "localp") m["order"] = mk.geti("order", 1) == 1 ? 2 : 1;
        else if (fam == "wavelet") m["order"] = mk.geti("order", 1) == 1 ? 3 : 1;
        else m["depth"] = mk.geti("depth", 1) == 0 ? 1 : 0;
        doMake(g, m);
    }

    // one process on the current simfs image; crash_at < 0: no kill
    void runProcess(const Json &p, int process, long crash_at, double tear, TasmanianSparseGrid &grid, ProcLog &L) {
        simfs::FS &F = simfs::fs();
        F.fds.clear(); F.event_count = 0; F.crash_torn_at = 0; F.crash_at = crash_at; F.crash_tear = tear; F.frozen = false; F.image.clear(); F.record = true; F.events.clear();
        F.on_close = [&](const std::string &path, bool wasWrite) {
            if (!wasWrite || path != MAIN) return;
            auto it = F.files.find(MAIN); if (it == F.files.end()) return;
            std::string s(it->second.begin(), it->second.end());
            if (F.frozen) L.ghost.push_back(s); else { L.completed.push_back(s); L.completed_calls.push_back(L.model_calls.size()); }
        };
        makeUserGrid(grid, p, process);
        int d = grid.getNumDimensions(), outs = grid.getNumOutputs();
        auto model = [&](std::vector<double> const &x, std::vector<double> &y, size_t tid) {
            (void)tid;
#ifdef C17_PARALLEL
            simrt::Ignore ig;
            if (p.has("sched")) { const Json &sc = p.at("sched"); std::string lk = sc.gets("latency", "zero");
                if (lk != "zero") { Hash h; h.i(sc.geti("lat_seed", 1)); for (double v : x) h.d(v); double u = (double)(h.h >> 11) * (1.0 / 9007199254740992.0); simrt::sleep((lk == "slow-one" && tid == 0 ? 50.0 : 1.0) * (0.1 + u)); } }
#endif
            F.event("model");
            size_t n = x.size() / (size_t)d;
            if (!F.frozen) for (size_t i = 0; i < n; i++) L.model_calls.push_back(rounded(&x[i * d], d));
            y = modelValues(x, d, outs);
        };
        size_t budget = (size_t)planBudget(p), jobs = (size_t)std::max<int64_t>(1, p.geti("jobs", 1)), batch = (size_t)std::max<int64_t>(1, p.geti("batch", 1));
        // the same candidate callbacks as the three public constructSurrogate() overloads; the first call also records
        // the state the process continues from (after recovery, beginConstruction and loading of the stored samples)
        bool local = grid.isLocalPolynomial() || grid.isWavelet();
        double tol = p.getd("tol", 1e-3); TasGrid::TypeRefinement crit = refOf(p.gets("criteria", "classic"));
        std::string t = p.gets("type", "iptotal");
        std::vector<int> aw = ivec(p, "aniso"); aw.resize(isCurved(t) ? 2 * (size_t)d : (size_t)d, 1);
        bool byout = p.getb("by_output"), first = true;
        auto cand = [&](TasmanianSparseGrid &g) -> std::vector<double> {
            if (first) { first = false; std::ostringstream os; g.write(os, TasGrid::mode_binary); L.start_state = os.str(); L.start_before_kill = !F.frozen; }
            // level limits keep a non-converging refinement (e.g. a zero-boundary rule on a model that is not zero there) from
            // running the point indexes past the range of int within the budget
            if (local) return g.getCandidateConstructionPoints(tol, crit, -1, std::vector<int>((size_t)d, 8));
            if (byout) return g.getCandidateConstructionPoints(depthOf(t), 0, std::vector<int>());
            return g.getCandidateConstructionPoints(depthOf(t), aw, std::vector<int>());
        };
        auto body = [&]() {
        try {
            if (!local && !grid.isGlobal() && !grid.isSequence() && !grid.isFourier()) throw std::runtime_error("unknown family");
#ifdef C17_PARALLEL
            if (local && p.getb("initial_guess")) TasGrid::constructCommon<TasGrid::mode_parallel, TasGrid::with_initial_guess>(model, budget, jobs, batch, grid, cand, MAIN);
            else TasGrid::constructCommon<TasGrid::mode_parallel, TasGrid::no_initial_guess>(model, budget, jobs, batch, grid, cand, MAIN);
#else
            if (local && p.getb("initial_guess")) TasGrid::constructCommon<TasGrid::mode_sequential, TasGrid::with_initial_guess>(model, budget, jobs, batch, grid, cand, MAIN);
            else TasGrid::constructCommon<TasGrid::mode_sequential, TasGrid::no_initial_guess>(model, budget, jobs, batch, grid, cand, MAIN);
#endif
        } catch (std::exception &e) {
            if (!F.frozen) L.escaped = std::string(typeid(e).name()) + ": " + e.what(); // an exception in the ghost is of no interest
        }
        };
#ifdef C17_PARALLEL
        {
            simrt::Config cfg; const Json &sc = p.at("sched");
            cfg.seed = (uint64_t)sc.geti("seed", 1) + 7919u * (uint64_t)process; cfg.strategy = (int)sc.geti("strategy", 1); cfg.pct_depth = (int)sc.geti("pct_depth", 1); cfg.pct_events = (uint64_t)sc.geti("pct_events", 300);
            cfg.starve = (int)sc.geti("starve", 1); cfg.p_spurious = sc.getd("p_spurious", 0); cfg.signal_policy = (int)sc.geti("signal_policy", 0); cfg.race_detect = false; cfg.step_cap = 3000000;
            char ctx[64]; snprintf(ctx, sizeof ctx, "run-index=%lld", (long long)g_current_index); simrt::set_fatal_context(ctx);
            simrt::Result R = simrt::run(cfg, body);
            if (F.st) { F.st->inc("sim.sched_steps", (long)R.steps); F.st->inc("sim.context_switches", (long)R.switches); F.st->inc("fault.spurious_wakeup", (long)R.spurious); F.st->inc("sim.simulated_ms", (long)(R.sim_time * 1e3)); F.st->distinct2.insert(R.sync_hash); }
        }
#else
        body();
#endif
        F.on_close = nullptr;
        L.events = F.event_count; L.killed = F.frozen;
    }

    struct Crash { double at; std::string bias; double tear; long event; };

    Outcome execute(const Json &p, Stats &st) override {
        std::vector<Crash> crashes;
        if (p.has("crashes")) for (auto const &c : p.at("crashes").a) crashes.push_back({c.getd("at", 0.5), c.gets("bias", "any"), c.getd("tear", 0.0), (long)c.geti("event", -1)});
        if (!p.getb("sweep")) return runHistory(p, crashes, st);
        // fault enumeration: every kill point of the first process of this workload (every event boundary; for a write the
        // offsets 1, middle, len-1 and a seeded one), optionally followed by every kill point of the restart up to its first checkpoints
        simfs::FS &F = simfs::fs(); F.reset(); F.st = nullptr;
        std::vector<simfs::Event> ev;
        { TasmanianSparseGrid g; ProcLog dry; F.files.clear(); runProcess(p, 0, -1, 0.0, g, dry); ev = F.events; }
        Outcome all; all.nontrivial = true; Hash sh; sh.s("sweep"); sh.u64(ev.size());
        double seeded = p.getd("sweep_tear", 0.37); int second = (int)p.geti("sweep_second", 0);
        long points = 0;
        for (long e = 0; e < (long)ev.size(); e++) {
            std::vector<double> tears{0.0};
            if (ev[e].kind.rfind("write", 0) == 0 && ev[e].bytes > 1) { double n = (double)ev[e].bytes; tears = {0.0, 1.0 / n + 1e-12, 0.5, (n - 1.0) / n + 1e-12, seeded}; }
            for (double t : tears) {
                std::vector<Crash> cs{{0.0, "any", t, e}};
                Outcome o = runHistory(p, cs, st); points++;
                all.trace.u64(o.trace.h);
                if (o.violation) { o.extra = Json::object(); o.extra["crash_event"] = (long long)e; o.extra["tear"] = t; o.shape = sh.h; st.inc("sweep.crash_points", points); return o; }
                for (int e2 = 0; e2 < second; e2++) {
                    std::vector<Crash> cs2{{0.0, "any", t, e}, {0.0, "any", (e2 % 2) ? 0.5 : 0.0, (long)e2}};
                    Outcome o2 = runHistory(p, cs2, st); points++;
                    all.trace.u64(o2.trace.h);
                    if (o2.violation) { o2.extra = Json::object(); o2.extra["crash_event"] = (long long)e; o2.extra["tear"] = t; o2.extra["second_crash_event"] = (long long)e2; o2.shape = sh.h; st.inc("sweep.crash_points", points); return o2; }
                }
            }
        }
        st.inc("sweep.crash_points", points); st.inc("sweep.workloads");
        sh.s(p.at("make").dump()); sh.i(p.geti("budget")); sh.i(p.geti("batch"));
        all.shape = sh.h;
        return all;
    }

    Outcome runHistory(const Json &p, const std::vector<Crash> &crashes, Stats &st) {
        Outcome out;
        simfs::FS &F = simfs::fs(); F.reset(); F.st = &st;
        const Json &mk = p.at("make");
        std::string fam = mk.gets("family"), mode = p.gets("mode", "seq");
        int budget = planBudget(p), d = planDims(p);
        if (p.has("large")) { fam = p.at("large").gets("family"); st.inc("reach.large_start_grid_runs"); }
        Hash sh; sh.s(fam); sh.s(mk.gets("rule")); sh.i(mk.geti("order")); sh.i(d); sh.i(budget); sh.i(p.geti("jobs")); sh.i(p.geti("batch"));
        std::vector<std::string> truth;  // every checkpoint completed so far, across processes, in order
        std::vector<long> truthKnown;    // ... and the number of samples computed (by any process) when it was written
        long inprogressKnown = 0, knownAtStart = p.has("large") ? (long)largeSize(p.at("large").gets("family")) : 0, parkedAtStart = -1, maxParked = 0; bool parkedUnknown = false; // parkedAtStart -1: unknown
        std::string inprogress;           // the checkpoint being written when the previous process was killed, as its ghost completed it
        std::string prevKillPhase, prevKillEvent;
        std::map<std::string, simfs::Bytes> disk;
        size_t nproc = crashes.size() + 1;
        for (size_t proc = 0; proc < nproc; proc++) {
            bool last = proc + 1 == nproc;
            long crash_at = -1; double tear = 0.0; std::vector<std::string> phase;
            if (!last) {
                // dry run on the same image: the events and protocol phases of this process
                F.files = disk; F.st = nullptr;
                { TasmanianSparseGrid g; ProcLog dry; runProcess(p, (int)proc, -1, 0.0, g, dry); }
                F.st = &st;
                std::vector<simfs::Event> ev = F.events; phase = phasesOf(ev);
                std::vector<long> cand; const Crash &c = crashes[proc];
                for (long i = 0; i < (long)ev.size(); i++) {
                    if (c.bias == "any") cand.push_back(i);
                    else if (c.bias == "checkpoint" && (phase[i] == "backup-copy" || phase[i] == "rewrite")) cand.push_back(i);
                    else if (c.bias == "first-checkpoint" && (phase[i] == "initial" || phase[i] == "recovery")) cand.push_back(i);
                    else if (c.bias == "model" && ev[i].kind == "model") cand.push_back(i);
                }
                if (cand.empty()) for (long i = 0; i < (long)ev.size(); i++) cand.push_back(i);
                if (!cand.empty()) { crash_at = cand[std::min<size_t>(cand.size() - 1, (size_t)(c.at * (double)cand.size()))]; tear = c.tear; }
                if (c.event >= 0) crash_at = c.event; // explicit event index (enumeration and minimised replays)
            }
            F.files = disk;
            TasmanianSparseGrid grid; ProcLog L;
            runProcess(p, (int)proc, crash_at, tear, grid, L);
            std::string killPhase = (L.killed && crash_at >= 0 && crash_at < (long)phase.size()) ? phase[crash_at] : "none";
            if (L.killed) { st.inc("fault.kill_in_phase." + killPhase); st.inc("fault.kill_at." + F.crash_event_kind); }
            st.inc("sim.fs_and_model_events", L.events); st.inc("sim.model_points", (long)L.model_calls.size()); st.inc("sim.checkpoints_completed", (long)L.completed.size());
            sh.s(killPhase); sh.i(crash_at); sh.d(tear);
            out.trace.i(L.events); out.trace.u64(L.model_calls.size()); for (auto &s : L.completed) out.trace.s(s);
            if (!L.escaped.empty()) {
                std::string ty = L.escaped.substr(0, L.escaped.find(':'));
                out.fail("exception", "C17/" + mode + "/" + (proc == 0 ? std::string("first-run") : prevKillPhase) + "/exception:" + ty,
                         "process " + std::to_string(proc) + (proc ? " (restart after a kill in phase '" + prevKillPhase + "': " + prevKillEvent + ")" : "") + " died with an exception that escaped constructSurrogate: " + L.escaped);
                return out;
            }
            if (proc > 0) {
                // oracle 1: the state the restart continued from (recorded at its first candidate refresh) must be the one
                // the last completed checkpoint (or the one complete on disk at the kill) decodes to
                std::string lastCompleted = truth.empty() ? std::string() : truth.back();
                if (!L.start_state.empty()) {
                    std::string rec;
                    auto parkedIn = [&](const std::string &bytes, long known) -> long { Decoded D = decode(bytes, d); return D.ok ? std::max<long>(0, known - (long)D.loaded.size() - (long)D.stored.size()) : -1; };
                    if (!lastCompleted.empty() && L.start_state == expectedStart(lastCompleted)) { rec = "last-completed"; st.inc("reach.recovered_from_last_completed"); knownAtStart = truthKnown.back(); parkedAtStart = parkedIn(lastCompleted, knownAtStart); }
                    else if (!inprogress.empty() && L.start_state == expectedStart(inprogress)) { rec = "in-progress"; st.inc("reach.recovered_from_checkpoint_complete_at_kill"); knownAtStart = inprogressKnown; parkedAtStart = parkedIn(inprogress, knownAtStart); }
                    else {
                        bool older = false; for (auto &tt : truth) if (L.start_state == expectedStart(tt)) older = true;
                        TasmanianSparseGrid fresh; makeUserGrid(fresh, p, (int)proc); fresh.beginConstruction();
                        std::ostringstream os; fresh.write(os, TasGrid::mode_binary);
                        rec = older ? "older" : (L.start_state == os.str() ? "scratch" : "garbage");
                    }
                    if (rec == "last-completed" || rec == "in-progress") { if (parkedAtStart < 0) parkedUnknown = true; else maxParked = std::max(maxParked, parkedAtStart); }
                    std::string where = "killed in phase '" + prevKillPhase + "' (" + prevKillEvent + ")";
                    if (rec == "scratch" && !lastCompleted.empty()) { out.fail("recovered-scratch", "C17/" + mode + "/" + prevKillPhase + "/recovered:scratch", where + "; " + std::to_string(truth.size()) + " checkpoint(s) had completed, but the restart found no usable file and started from the user's grid"); return out; }
                    if (rec == "older") { out.fail("recovered-older", "C17/" + mode + "/" + prevKillPhase + "/recovered:older", where + "; the restart continued from a checkpoint older than the last completed one"); return out; }
                    if (rec == "garbage" && getenv("C17_DEBUG")) {
                        std::string e = expectedStart(lastCompleted);
                        fprintf(stderr, "DEBUG proc %zu: start_state %zu bytes, expected(last) %zu bytes, truth %zu, inprogress %zu bytes\n", proc, L.start_state.size(), e.size(), truth.size(), inprogress.size());
                        TasmanianSparseGrid a, b; { std::istringstream is(L.start_state); a.read(is, true); } if (e.size() > 20) { std::istringstream is(e); b.read(is, true); }
                        std::ostringstream oa, ob; a.write(oa, false); if (e.size() > 20) b.write(ob, false);
                        fprintf(stderr, "--- start state\n%s\n--- expected\n%s\n", oa.str().c_str(), ob.str().c_str());
                    }
                    if (rec == "garbage") { out.fail("recovered-garbage", "C17/" + mode + "/" + prevKillPhase + "/recovered:garbage", where + "; the restart continued from a state that no process ever checkpointed"); return out; }
                    if (rec == "scratch") st.inc("reach.restart_from_scratch_nothing_completed");
                }
                // oracle 2: nothing the last completed checkpoint contained is computed again
                if (!lastCompleted.empty()) {
                    Decoded D = decode(lastCompleted, d);
                    if (D.ok && !D.stored.empty()) st.inc("reach.restart_after_checkpoint_with_stored_samples");
                    if (D.ok) for (auto &pt : L.model_calls) if (D.loaded.count(pt) || D.stored.count(pt)) {
                        out.fail("recomputed", "C17/" + mode + "/" + prevKillPhase + "/recomputed", "killed in phase '" + prevKillPhase + "' (" + prevKillEvent + "); the restart computed again a sample that the last completed checkpoint already contained");
                        return out;
                    }
                }
            }
            for (size_t k = 0; k < L.completed.size(); k++) { truth.push_back(L.completed[k]); truthKnown.push_back(knownAtStart + (long)L.completed_calls[k]); }
            inprogressKnown = knownAtStart + (long)L.model_calls.size();
            if (getenv("C17_DEBUG")) { fprintf(stderr, "DEBUG proc %zu: knownAtStart %ld parkedAtStart %ld model_calls %zu completed %zu killed %d final_loaded %d\n", proc, knownAtStart, parkedAtStart, L.model_calls.size(), L.completed.size(), (int)L.killed, grid.getNumLoaded());
                for (size_t k = 0; k < L.completed.size(); k++) { Decoded D = decode(L.completed[k], d); fprintf(stderr, "   ckpt %zu: calls %zu loaded %zu stored %zu\n", k, L.completed_calls[k], D.loaded.size(), D.stored.size()); } }
            // a checkpoint whose last byte reached the file before the kill is complete even if the file was not closed yet
            inprogress.clear();
            if (L.killed && !L.ghost.empty()) {
                auto im = F.image.find(MAIN);
                if (im != F.image.end() && std::string(im->second.begin(), im->second.end()) == L.ghost[0]) { truth.push_back(L.ghost[0]); truthKnown.push_back(inprogressKnown); st.inc("reach.kill_after_last_byte_before_close"); }
            }
            prevKillPhase = killPhase;
            prevKillEvent = L.killed ? (F.crash_event_kind + " " + F.crash_event_path + (F.crash_event_kind.rfind("write", 0) == 0 ? ", torn after " + std::to_string(F.crash_torn_at) + " of " + std::to_string(F.crash_event_bytes) + " bytes" : "")) : "";
            if (L.killed) { disk = F.image; if (disk.count(OLD)) st.inc("reach.backup_file_exists_at_kill"); if (F.crash_torn_at > 0) st.inc("reach.torn_write"); }
            else {
                disk = F.files;
                // oracle 3: completion
                int outs = grid.getNumOutputs();
                std::vector<double> lp = grid.getLoadedPoints(); const double *lv = grid.getLoadedValues();
                std::vector<double> mv = modelValues(lp, grid.getNumDimensions(), outs);
                for (size_t i = 0; i < mv.size(); i++) if (memcmp(&mv[i], &lv[i], 8) != 0) { out.fail("final-values", "C17/" + mode + "/final-values", "after the final run loaded point " + std::to_string(i / (size_t)outs) + " does not carry the model value computed for it"); return out; }
                if (grid.getNumLoaded() > budget) {
                    // known finding: a restart does not count the samples parked inside the recovered grid; every restart r can take the number of
                    // known samples to budget + parked_r, so the final excess is at most the largest parked count met at a restart.
                    // Anything beyond it (e.g. stored samples not counted) is a different violation.
                    long excess = grid.getNumLoaded() - budget;
                    std::string sig = proc == 0 ? "/budget/single-run" : (parkedUnknown || excess <= maxParked) ? "/budget/after-restart" : "/budget/after-restart-beyond-parked";
                    out.fail("budget", "C17/" + mode + sig, "the final grid holds " + std::to_string(grid.getNumLoaded()) + " loaded points, the budget was " + std::to_string(budget) +
                             (proc > 0 ? " (the checkpoints the restarts continued from held at most " + std::to_string(maxParked) + " sample(s) parked inside the grid)" : ""));
                    return out;
                }
                if (grid.getNumLoaded() == 0) st.inc("note.final_grid_has_no_loaded_points");
                st.inc("reach.process_completed");
                out.trace.i(grid.getNumLoaded());
                break; // a process that was not killed ends the history
            }
        }
        out.shape = sh.h; out.nontrivial = !crashes.empty();
        return out;
    }
};

} // namespace

int main(int argc, char **argv) { C17 e; return engine_main(argc, argv, e); }
