// C12 — const operations on one grid from several caller threads, under the deterministic thread
// simulator. There is no synchronisation in these paths, so scheduling points are the thread
// create/join operations and a seeded subset of instrumented memory accesses (pre-emption inside
// the const calls). Oracles: (1) happens-before race detector: no conflicting unordered accesses of
// two callers; (2) each call returns bit-for-bit what it returns when executed alone; (3) the
// observable state of the grid is unchanged; (4) no crash / use-after-free / deadlock.
#include "sim/engine.hpp"
#include "sim/tsg_common.hpp"
#include "sim/simrt.hpp"
#include <set>
#include <thread>
#include <typeinfo>

using namespace sim;
using namespace tsgsim;

namespace simrt { void sim_fatal_notify() { sim::write_crash_line("sim-fatal"); } }

namespace {

const std::vector<std::string> &callMenu() {
    static std::vector<std::string> v{"evaluate", "evaluateBatch", "evaluateFast", "interpolationWeights", "quadratureWeights", "differentiationWeights", "integrate", "differentiate",
                                      "hierarchicalFunctions", "sparseHierarchicalFunctions", "hierarchicalSupport", "integrateHierarchical", "coefficients", "points", "values",
                                      "polynomialSpace", "anisotropicCoefficients", "writeBinary", "writeAscii", "copy", "observe", "meta", "evaluateBatchFloat", "printStats", "candidatesOfCopy", "sparseStaticPair"};
    return v;
}

// one const call on the shared grid; the result is a flat vector of doubles (or an exception text)
struct CallResult { std::vector<double> v; std::string s; bool operator==(const CallResult &o) const { return s == o.s && v.size() == o.v.size() && (v.empty() || memcmp(v.data(), o.v.data(), v.size() * 8) == 0); } };

std::vector<double> pointsFor(const std::vector<double> &probes, int d, int nx, int rot) {
    std::vector<double> x; size_t np = d ? probes.size() / (size_t)d : 0;
    if (np == 0) return x;
    for (int k = 0; k < nx; k++) { size_t i = ((size_t)rot + (size_t)k) % np; x.insert(x.end(), probes.begin() + (long)(i * (size_t)d), probes.begin() + (long)((i + 1) * (size_t)d)); }
    return x;
}

CallResult doCall(const TasmanianSparseGrid &g, const std::string &name, const std::vector<double> &probes, int nx, int rot) {
    CallResult r;
    int d = g.getNumDimensions(), outs = g.getNumOutputs();
    try {
        std::vector<double> x = pointsFor(probes, d, std::max(1, nx), rot);
        std::vector<double> x1(x.begin(), x.begin() + std::min<size_t>(x.size(), (size_t)d));
        bool surrogate = outs > 0 && g.getNumLoaded() > 0; // evaluate/integrate/differentiate are documented for loaded grids only
        if (g.getNumPoints() == 0 && name != "meta" && name != "points" && name != "values" && name != "writeBinary" && name != "writeAscii" && name != "copy" && name != "printStats") r.s = "skipped"; // a grid that holds no points yet (construction just begun)
        else if (!surrogate && (name == "evaluate" || name == "evaluateBatch" || name == "evaluateBatchFloat" || name == "evaluateFast" || name == "integrate" || name == "differentiate")) r.s = "skipped";
        else if (name == "evaluate") { std::vector<double> y; g.evaluate(x1, y); r.v = y; }
        else if (name == "evaluateBatch") { std::vector<double> y; g.evaluateBatch(x, y); r.v = y; }
        else if (name == "evaluateBatchFloat") { std::vector<float> xf(x.begin(), x.end()), y; g.evaluateBatch(xf, y); r.v.assign(y.begin(), y.end()); }
        else if (name == "evaluateFast") { std::vector<double> y((size_t)std::max(outs, 0)); if (outs == 0 || g.getNumLoaded() == 0) { r.s = "skipped"; } else { g.evaluateBatch(x1.data(), 1, y.data()); r.v = y; } }
        else if (name == "interpolationWeights") r.v = g.getInterpolationWeights(x1);
        else if (name == "quadratureWeights") r.v = g.getQuadratureWeights();
        else if (name == "differentiationWeights") { if (g.isSetConformalTransformASIN()) r.s = "skipped"; else r.v = g.getDifferentiationWeights(x1); }
        else if (name == "integrate") { std::vector<double> q; g.integrate(q); r.v = q; }
        else if (name == "differentiate") { if (g.isSetConformalTransformASIN()) r.s = "skipped"; else { std::vector<double> j; g.differentiate(x1, j); r.v = j; } }
        else if (name == "hierarchicalFunctions") { std::vector<double> y; g.evaluateHierarchicalFunctions(x, y); r.v = y; }
        else if (name == "sparseHierarchicalFunctions") {
            if (g.isGlobal() || g.isSequence() || g.isFourier()) { std::vector<double> y; g.evaluateHierarchicalFunctions(x, y); r.v = y; }
            else { std::vector<int> pntr, indx; std::vector<double> vals; g.evaluateSparseHierarchicalFunctions(x, pntr, indx, vals); r.v = vals; for (int p : pntr) r.v.push_back(p); for (int i : indx) r.v.push_back(i); }
        }
        else if (name == "sparseStaticPair") { // the two-stage interface used by the C wrapper: count the non-zeros, then fill caller-provided arrays
            if (!g.isLocalPolynomial()) r.s = "skipped";
            else { int nxp = (int)(x.size() / (size_t)d); int nz = g.evaluateSparseHierarchicalFunctionsGetNZ(x.data(), nxp); std::vector<int> sp((size_t)nxp + 1), si((size_t)nz); std::vector<double> sv((size_t)nz);
                   g.evaluateSparseHierarchicalFunctionsStatic(x.data(), nxp, sp.data(), si.data(), sv.data()); r.v = sv; for (int q : sp) r.v.push_back(q); for (int q : si) r.v.push_back(q); }
        }
        else if (name == "hierarchicalSupport") r.v = g.getHierarchicalSupport();
        else if (name == "integrateHierarchical") { std::vector<double> q((size_t)g.getNumPoints()); if (g.getNumPoints() > 0) g.integrateHierarchicalFunctions(q.data()); r.v = q; }
        else if (name == "coefficients") { const double *c = (outs > 0 && g.getNumLoaded() > 0) ? g.getHierarchicalCoefficients() : nullptr; if (c) r.v.assign(c, c + (size_t)g.getNumLoaded() * (size_t)outs * (g.isFourier() ? 2 : 1)); }
        else if (name == "points") { r.v = g.getPoints(); std::vector<double> n = g.getNeededPoints(); r.v.insert(r.v.end(), n.begin(), n.end()); if (outs > 0) { std::vector<double> l = g.getLoadedPoints(); r.v.insert(r.v.end(), l.begin(), l.end()); } }
        else if (name == "values") { if (outs > 0 && g.getNumLoaded() > 0) { const double *v = g.getLoadedValues(); r.v.assign(v, v + (size_t)g.getNumLoaded() * (size_t)outs); } }
        else if (name == "polynomialSpace") { if (g.isGlobal() || g.isSequence()) { std::vector<int> s = g.getGlobalPolynomialSpace(rot % 2 == 0); r.v.assign(s.begin(), s.end()); } else r.s = "skipped"; }
        else if (name == "anisotropicCoefficients") { if ((g.isGlobal() || g.isSequence() || g.isFourier()) && outs > 0 && g.getNumLoaded() > 0) { std::vector<int> w; g.estimateAnisotropicCoefficients(rot % 2 ? TasGrid::type_iptotal : TasGrid::type_ipcurved, 0, w); r.v.assign(w.begin(), w.end()); } else r.s = "skipped"; }
        else if (name == "writeBinary") { std::ostringstream os; g.write(os, TasGrid::mode_binary); r.s = os.str(); }
        else if (name == "writeAscii") { std::ostringstream os; g.write(os, TasGrid::mode_ascii); r.s = os.str(); }
        else if (name == "printStats") { std::ostringstream os; g.printStats(os); r.s = os.str(); }
        else if (name == "copy") { TasmanianSparseGrid c(g); std::ostringstream os; c.write(os, TasGrid::mode_binary); r.s = os.str(); }
        else if (name == "candidatesOfCopy") {
            TasmanianSparseGrid c(g);
            if (outs > 0 && c.getNumLoaded() > 0 && (c.isLocalPolynomial() || c.isWavelet())) { c.setSurplusRefinement(1e-3, TasGrid::refine_classic, 0, std::vector<int>((size_t)d, 4)); r.v = c.getNeededPoints(); }
            else r.s = "skipped";
        }
        else if (name == "meta") { r.v = {(double)g.getNumDimensions(), (double)outs, (double)g.getNumLoaded(), (double)g.getNumNeeded(), (double)g.getNumPoints(), (double)g.getOrder(), g.getAlpha(), g.getBeta(), (double)g.isUsingConstruction()};
                                   std::vector<int> ll = g.getLevelLimits(); r.v.insert(r.v.end(), ll.begin(), ll.end()); if (g.isSetDomainTransfrom()) { std::vector<double> a, b; g.getDomainTransform(a, b); r.v.insert(r.v.end(), a.begin(), a.end()); r.v.insert(r.v.end(), b.begin(), b.end()); } }
        else if (name == "observe") { ObsOpts oo; oo.candidates = false; Obs o = observe(g, oo); for (auto &s : o.sec) { r.v.insert(r.v.end(), s.v.begin(), s.v.end()); r.s += s.s; } }
        else r.s = "unknown";
    } catch (std::exception &e) { r.v.clear(); r.s = std::string("exception ") + typeid(e).name() + ": " + e.what(); }
    return r;
}

simrt::Config schedConfig(const Json &s) {
    simrt::Config c;
    c.seed = (uint64_t)s.geti("seed", 1);
    c.strategy = (int)s.geti("strategy", simrt::RANDOM_WALK);
    c.pct_depth = (int)s.geti("pct_depth", 2);
    c.pct_events = (uint64_t)s.geti("pct_events", 60);
    c.starve = (int)s.geti("starve", 1);
    c.preempt_mean = s.getd("preempt_mean", 0);
    if (s.has("random_steps")) c.random_steps = (uint64_t)s.geti("random_steps");
    c.step_cap = (uint64_t)s.geti("step_cap", 2000000);
    return c;
}

class C12 : public Engine {
public:
    const char *property() const override { return "C12"; }

    Json generate(Rng rng, const std::string &tier) override {
        (void)tier;
        Rng w = rng.fork("workload"), s = rng.fork("schedule"), c = rng.fork("calls");
        Json p = Json::object();
        GenOpts go; go.min_outs = 0; go.max_outs = 2; go.max_depth = 3; go.max_points = 150; go.optimized_rules = false; go.wavelet_max_dims = 2;
        if (w.chance(0.3)) go.families = {"wavelet"};   // the family with the only mutable CPU-side cache
        Json mk = genMake(w, go);
        p["make"] = mk;
        int d = (int)mk.geti("dims");
        // history: state classes fresh / loaded / refined / merged / constructing / coefficient-set
        Json ops = Json::array();
        int nops = w.pick<int>({0, 1, 1, 2, 2, 3, 4});
        for (int k = 0; k < nops; k++) ops.push(genOp(w, d, true));
        if (mk.geti("outs") > 0 && w.chance(0.75)) { Json o = Json::object(); o["op"] = "load"; o["variant"] = 0.0; Json a = Json::array(); a.push(o); for (auto &q : ops.a) a.push(q); ops = a; }
        p["ops"] = ops;
        p["persisted"] = w.pick<std::string>({"no", "no", "binary", "ascii"});
        p["alone_first"] = w.chance(0.25);
        int nt = c.range(2, 4);
        Json tasks = Json::array();
        bool same = c.chance(0.3); std::string samecall = c.pick(callMenu());
        for (int t = 0; t < nt; t++) {
            Json calls = Json::array(); int nc = c.range(1, 3);
            for (int k = 0; k < nc; k++) { Json q = Json::object(); q["name"] = (same && k == 0) ? samecall : c.pick(callMenu()); q["nx"] = c.range(1, 4); q["rot"] = c.range(0, 9); calls.push(q); }
            tasks.push(calls);
        }
        p["tasks"] = tasks;
        Json sc = Json::object();
        sc["seed"] = (long long)(s.next() >> 12);
        sc["strategy"] = s.pick<int>({simrt::RANDOM_WALK, simrt::RANDOM_WALK, simrt::PCT, simrt::PCT, simrt::RUN_TO_BLOCK, simrt::ROUND_ROBIN, simrt::STARVE_ONE});
        sc["pct_depth"] = s.range(0, 3); sc["pct_events"] = s.pick<int>({10, 30, 100, 400});
        sc["starve"] = s.range(1, 3);
        sc["preempt_mean"] = s.pick<double>({0.0, 50.0, 300.0, 300.0, 2000.0, 2000.0, 20000.0});
        sc["random_steps"] = 1 << 30;
        p["sched"] = sc;
        Json sh = Json::object();
        sh["lists"] = Json::from(std::vector<std::string>{"tasks", "tasks.0", "tasks.1", "tasks.2", "tasks.3", "ops"});
        sh["ints"] = Json::from(std::vector<std::string>{"sched.random_steps", "make.depth", "make.outs", "make.dims", "sched.strategy", "sched.pct_depth"});
        Json mn = Json::object(); mn["make.dims"] = 1; sh["min"] = mn; p["_shrink"] = sh;
        return p;
    }

    Outcome execute(const Json &p, Stats &st) override {
        Outcome out;
        const Json &mk = p.at("make");
        // ---- the shared grid, built outside the simulation ----------------------------------------------
        TasmanianSparseGrid grid;
        std::string hist;
        try {
            doMake(grid, mk);
            if (p.has("ops")) for (auto const &o : p.at("ops").a) { std::string r = applyOp(grid, o, nullptr); hist += o.gets("op") + ":" + r.substr(0, r.find(':')) + " "; }
            std::string per = p.gets("persisted", "no");
            if (per != "no") { std::stringstream ss; grid.write(ss, per == "binary"); TasmanianSparseGrid g2; g2.read(ss, per == "binary"); grid = std::move(g2); st.inc("reach.grid_read_from_stream"); }
        } catch (std::exception &e) { out.nontrivial = false; out.trace.s(e.what()); return out; }
        if (grid.empty()) { out.nontrivial = false; return out; }
        const TasmanianSparseGrid &cg = grid;
        std::vector<double> probes = probePoints(cg, 10);
        ObsOpts oo; oo.candidates = false;
        // reference: every call executed alone, on a COPY (so that a lazily built cache of the shared grid stays in the state the history left it)
        struct TaskPlan { std::vector<std::string> names; std::vector<int> nx, rot; std::vector<CallResult> alone, conc; };
        std::vector<TaskPlan> T;
        if (p.has("tasks")) for (auto const &tl : p.at("tasks").a) { if (!tl.isArr() || tl.a.empty()) continue; TaskPlan tp; for (auto const &q : tl.a) { tp.names.push_back(q.gets("name")); tp.nx.push_back((int)q.geti("nx", 1)); tp.rot.push_back((int)q.geti("rot", 0)); } T.push_back(tp); }
        if (T.size() < 2) { out.nontrivial = false; return out; }
        std::string before_bytes; { std::ostringstream os; cg.write(os, TasGrid::mode_binary); before_bytes = os.str(); }
        // The reference executes every call alone on a COPY (so that a lazily built cache of the shared grid stays in the state the history
        // left it). In most runs it comes AFTER the concurrent phase: process-wide lazily filled state (function-local statics, global tables)
        // must meet the concurrent callers cold at least in the first runs of every worker process.
        bool alone_first = p.getb("alone_first");
        auto runAlone = [&]() {
            TasmanianSparseGrid copy(cg);
            for (auto &tp : T) for (size_t k = 0; k < tp.names.size(); k++) tp.alone.push_back(doCall(copy, tp.names[k], probes, tp.nx[k], tp.rot[k]));
        };
        if (alone_first) runAlone();
        bool wavelet = grid.isWavelet();
        std::string sclass = stateClass(grid);
        // ---- concurrent phase under the simulator ------------------------------------------------------------
        simrt::Config cfg = schedConfig(p.at("sched"));
        char ctx[64]; snprintf(ctx, sizeof ctx, "run-index=%lld", (long long)g_current_index); simrt::set_fatal_context(ctx);
        simrt::Result R = simrt::run(cfg, [&]() {
            std::vector<std::thread> th;
            for (size_t t = 0; t < T.size(); t++) {
                TaskPlan *tp = &T[t];
                tp->conc.resize(tp->names.size());
                th.emplace_back([tp, &cg, &probes]() { for (size_t k = 0; k < tp->names.size(); k++) tp->conc[k] = doCall(cg, tp->names[k], probes, tp->nx[k], tp->rot[k]); });
            }
            for (auto &x : th) x.join();
        });
        if (!alone_first) runAlone();
        st.inc(alone_first ? "order.reference_before_concurrent" : "order.concurrent_before_reference");
        st.inc("sim.sched_steps", (long)R.steps); st.inc("sim.context_switches", (long)R.switches); st.inc("sim.memory_events", (long)R.mem_events);
        st.inc("fault.preemption_at_memory_access", (long)R.preemptions); st.inc(std::string("fault.strategy.") + std::to_string(cfg.strategy));
        st.inc("sim.caller_tasks", (long)T.size());
        st.inc("state." + familyName(grid) + "." + sclass);
        st.maxi("max_memory_events", (double)R.mem_events);
        st.distinct2.insert(R.trace_hash);
        out.trace.u64(R.trace_hash);
        Hash sh; sh.s(familyName(grid)); sh.s(mk.gets("rule")); sh.i(mk.geti("order")); sh.s(sclass); sh.u64(shapeKey(grid)); for (auto &tp : T) { for (auto &n : tp.names) sh.s(n); sh.s("|"); }
        out.shape = sh.h;
        for (auto &tp : T) for (auto &r : tp.conc) { out.trace.vec(r.v); out.trace.s(r.s); }
        std::set<std::string> called; for (auto &tp : T) for (auto &n : tp.names) called.insert(n);
        if (wavelet && (called.count("interpolationWeights") || called.count("quadratureWeights") || called.count("differentiationWeights") || called.count("observe") || called.count("integrate"))) st.inc("reach.wavelet_weight_query_concurrent");
        for (auto &n : called) st.inc("call." + n);
        Json ex = Json::object(); ex["history"] = hist; ex["state"] = familyName(grid) + "/" + sclass;

        // ---- oracles ----------------------------------------------------------------------------------------
        if (!R.races.empty()) {
            auto &r = R.races[0];
            std::string a = r.fnA, b = r.fnB; if (b < a) std::swap(a, b);
            Json arr = Json::array();
            for (auto &q : R.races) { Json o = Json::object(); o["kind"] = q.kind; o["a"] = q.fnA; o["b"] = q.fnB; o["where"] = q.where; Json stv = Json::array(); for (auto &f : q.stackB) stv.push(Json(f)); o["stack"] = stv; arr.push(o); }
            ex["reports"] = arr; out.extra = ex;
            out.fail(r.kind, "C12/" + r.kind + "/" + a + "~" + b, r.kind + std::string(" between two const calls on the same grid: ") + r.where);
            return out;
        }
        for (size_t t = 0; t < T.size(); t++) for (size_t k = 0; k < T[t].names.size(); k++) {
            if (!(T[t].conc[k] == T[t].alone[k])) {
                out.extra = ex;
                out.fail("result", "C12/result/" + T[t].names[k], "call " + T[t].names[k] + " of caller " + std::to_string(t) + " returned a different result when run concurrently than when run alone"
                         + (T[t].conc[k].s != T[t].alone[k].s ? " (" + T[t].conc[k].s.substr(0, 120) + " vs " + T[t].alone[k].s.substr(0, 120) + ")" : ""));
                return out;
            }
            if (T[t].alone[k].s.rfind("exception", 0) == 0) st.inc("note.call_throws_in_this_state"); else if (T[t].alone[k].s == "skipped") st.inc("note.call_skipped_in_this_state");
        }
        std::string after_bytes; { std::ostringstream os; cg.write(os, TasGrid::mode_binary); after_bytes = os.str(); }
        if (after_bytes != before_bytes) { out.extra = ex; out.fail("state", "C12/state-changed", "the serialised grid differs after the concurrent const calls"); return out; }
        return out;
    }
};

} // namespace

int main(int argc, char **argv) { C12 e; return engine_main(argc, argv, e); }
