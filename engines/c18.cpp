// C18 — parallel constructSurrogate() and threaded loadNeededValues() under the deterministic
// thread simulator (sim/simrt): every std::thread / std::mutex / condition_variable operation and
// every instrumented memory access of the protocol is a scheduling point owned by one seeded
// stream; the model callback is played by the harness with latencies on the simulated clock.
// Oracles: the clauses of the property over the model-call log, the final grid, the scheduler
// (termination, deadlock) and the happens-before race detector.
#include "sim/engine.hpp"
#include "sim/tsg_common.hpp"
#include "sim/simrt.hpp"
#include "TasmanianAddons.hpp"
#include <chrono>
#include <set>
#include <thread>
#include <typeinfo>

using namespace sim;
using namespace tsgsim;

namespace simrt { void sim_fatal_notify() { sim::write_crash_line("sim-fatal"); } }

namespace {

struct Pt { std::vector<double> x; bool operator<(const Pt &o) const { return x < o.x; } };
Pt rounded(const double *x, int d) { Pt p; p.x.resize((size_t)d); for (int k = 0; k < d; k++) p.x[k] = std::round(x[k] * 1e10) / 1e10 + 0.0; return p; }

struct Call { uint64_t enter, exit; size_t tid; int npts; std::vector<Pt> pts; size_t ysize_on_entry; int task; double t_enter, t_exit; };

struct Log {
    std::vector<Call> calls;
    std::map<size_t, int> active;     // thread id -> calls currently inside the model
    std::string overlap;              // first same-id overlap
    long max_concurrent = 0, concurrent = 0;
    long refresh_while_running = 0, refreshes = 0, y_longer_than_documented = 0;
    std::vector<double> raw_x;         // exact coordinates passed to the model, in call order
};


template <TasGrid::RuleLocal::erule er> bool completeHierarchyT(const TasmanianSparseGrid &g) {
    int d = g.getNumDimensions(), n = g.getNumLoaded();
    const int *idx = g.getPointsIndexes();
    std::set<std::vector<int>> have;
    for (int i = 0; i < n; i++) have.insert(std::vector<int>(idx + (size_t)i * d, idx + (size_t)(i + 1) * d));
    for (int i = 0; i < n; i++) {
        std::vector<int> p(idx + (size_t)i * d, idx + (size_t)(i + 1) * d);
        for (int k = 0; k < d; k++) {
            int save = p[k];
            int a = TasGrid::RuleLocal::getParent<er>(save), b = TasGrid::RuleLocal::getStepParent<er>(save);
            if (a > -1) { p[k] = a; if (!have.count(p)) return false; }
            if (a == -2) { for (int r = 0; r < TasGrid::RuleLocal::getNumPoints<er>(0); r++) { p[k] = r; if (!have.count(p)) return false; } }
            if (b > -1) { p[k] = b; if (!have.count(p)) return false; }
            p[k] = save;
        }
    }
    return true;
}
// C01 promises nodal reproduction (and C09 order independence) for local polynomial grids only when every loaded point has all of its
// hierarchical parents loaded; the surrogate oracle of C18 is applied to those grids only (others: values are still compared exactly)
bool completeHierarchy(const TasmanianSparseGrid &g) {
    using TasGrid::RuleLocal::erule;
    TasGrid::TypeOneDRule r = g.getRule(); int order = g.getOrder();
    erule er = TasGrid::RuleLocal::getEffectiveRule(order, (r == TasGrid::rule_semilocalp && order < 2) ? TasGrid::rule_localp : r);
    switch (er) {
    case erule::pwc: return completeHierarchyT<erule::pwc>(g);
    case erule::localp: return completeHierarchyT<erule::localp>(g);
    case erule::semilocalp: return completeHierarchyT<erule::semilocalp>(g);
    case erule::localp0: return completeHierarchyT<erule::localp0>(g);
    default: return completeHierarchyT<erule::localpb>(g);
    }
}

simrt::Config schedConfig(const Json &s) {
    simrt::Config c;
    c.seed = (uint64_t)s.geti("seed", 1);
    c.strategy = (int)s.geti("strategy", simrt::RANDOM_WALK);
    c.pct_depth = (int)s.geti("pct_depth", 2);
    c.pct_events = (uint64_t)s.geti("pct_events", 600);
    c.starve = (int)s.geti("starve", 1);
    c.preempt_mean = s.getd("preempt_mean", 0);
    c.p_spurious = s.getd("p_spurious", 0);
    c.signal_policy = (int)s.geti("signal_policy", 0);
    if (s.has("random_steps")) c.random_steps = (uint64_t)s.geti("random_steps");
    c.step_cap = (uint64_t)s.geti("step_cap", 400000);
    return c;
}

Json genSched(Rng &r) {
    Json s = Json::object();
    s["seed"] = (long long)(r.next() >> 12);
    s["strategy"] = r.pick<int>({simrt::RANDOM_WALK, simrt::RANDOM_WALK, simrt::RANDOM_WALK, simrt::RANDOM_WALK, simrt::PCT, simrt::PCT, simrt::PCT, simrt::RUN_TO_BLOCK, simrt::ROUND_ROBIN, simrt::STARVE_ONE, simrt::STARVE_ONE});
    s["pct_depth"] = r.range(0, 3);
    s["pct_events"] = r.pick<int>({50, 200, 600, 2000});
    s["starve"] = r.range(0, 3);
    s["preempt_mean"] = r.pick<double>({0.0, 0.0, 0.0, 300.0, 3000.0, 30000.0});
    s["p_spurious"] = r.pick<double>({0.0, 0.0, 0.0, 0.02, 0.1});
    s["signal_policy"] = r.range(0, 2);
    s["random_steps"] = 1 << 30;
    return s;
}

double latencyOf(const Json &p, const double *x, int d, size_t tid) {
    std::string kind = p.gets("latency", "zero");
    if (kind == "zero") return 0.0;
    Hash h; h.i(p.geti("lat_seed", 7)); for (int k = 0; k < d; k++) h.d(x[k]);
    double u = (double)(h.h >> 11) * (1.0 / 9007199254740992.0), scale = p.getd("lat_scale", 1.0);
    if (kind == "uniform") return u * scale;
    if (kind == "heavy") return std::min(1e4 * scale, 0.01 * scale / std::pow(std::max(u, 1e-9), 1.5));
    if (kind == "slow-one") return (tid == 0 ? 100.0 : 1.0) * scale * (0.5 + u);
    if (kind == "equal") return scale;
    return 0.0;
}

class C18 : public Engine {
public:
    const char *property() const override { return "C18"; }

    Json generate(Rng rng, const std::string &tier) override {
        (void)tier;
        Rng w = rng.fork("workload"), s = rng.fork("schedule"), l = rng.fork("latency");
        Json p = Json::object();
        bool load = w.chance(0.25);
        p["op"] = load ? "load" : "construct";
        GenOpts go; go.min_outs = 1; go.max_outs = 2; go.nested_only = true; go.max_depth = load ? 3 : 2; go.max_points = load ? 60 : 30; go.transforms = w.chance(0.2); go.optimized_rules = false;
        Json mk = genMake(w, go);
        Json mk2 = Json::object(); for (auto &kv : mk.o) if (kv.first != "conformal") mk2[kv.first] = kv.second;
        p["make"] = mk2;
        int d = (int)mk2.geti("dims");
        if (load) {
            p["threads"] = w.range(0, 6); p["overwrite"] = w.chance(0.35); p["vector_overload"] = w.chance(0.4);
            p["prestate"] = w.pick<std::string>({"fresh", "fresh", "loaded", "refined"});
        } else {
            p["jobs"] = w.range(1, 6); p["batch"] = w.pick<int>({1, 1, 1, 2, 3});
            p["budget"] = w.pick<int>({1, 2, 3, 5, 8, 12, 20, 35});
            p["tol"] = w.pick<double>({1e-1, 1e-2, 1e-3, 1e-5}); p["criteria"] = w.pick<std::string>({"classic", "parents", "direction", "fds", "stable"});
            std::string t = w.pick<std::string>({"iptotal", "level", "ipcurved", "iphyperbolic"});
            p["type"] = t; p["aniso"] = genAniso(w, d, t, 1.0); p["by_output"] = w.chance(0.3);
            p["initial_guess"] = w.chance(0.2);
            p["limit"] = w.pick<int>({1, 2, 3, 5, 8});
            p["preloaded"] = w.chance(0.2);
            p["api"] = w.pick<std::string>({"public", "common"});
            // blind-spot configuration (as in C17): with 1000 or more loaded points finished samples wait in the CompleteStorage
            // instead of being loaded one by one, candidates are refreshed while samples are stored but not loaded
            if (w.chance(0.04)) { p["large"] = w.pick<std::string>({"localp", "semi-localp", "fourier"}); p["budget_extra"] = w.pick<int>({3, 8, 20, 40, 80}); p["jobs"] = w.range(2, 5); p["batch"] = w.pick<int>({1, 1, 2, 3, 4}); p["limit"] = 9;
                                   p["tol"] = w.pick<double>({1e-1, 1e-2, 1e-3, 1e-4, 1e-6}); } // a coarse tolerance keeps the candidate list short: refreshes while samples wait in the storage
        }
        p["model_fills_in_place"] = w.chance(0.4); // the model writes y[i] relying on the documented size of y instead of assigning the vector
        p["latency"] = l.pick<std::string>({"zero", "zero", "uniform", "uniform", "heavy", "slow-one", "equal"});
        p["lat_seed"] = (long long)(l.next() >> 40); p["lat_scale"] = l.pick<double>({1e-3, 1.0, 60.0});
        p["std_sleep"] = l.chance(0.3);
        p["sched"] = genSched(s);
        Json sh = Json::object();
        sh["lists"] = Json::from(std::vector<std::string>{});
        sh["ints"] = Json::from(std::vector<std::string>{"budget", "jobs", "batch", "threads", "make.depth", "make.outs", "make.dims", "sched.random_steps", "sched.strategy", "sched.pct_depth", "sched.signal_policy", "limit"});
        Json mn = Json::object(); mn["make.dims"] = 1; mn["make.outs"] = 1; mn["budget"] = 1; mn["jobs"] = 1; mn["batch"] = 1; mn["limit"] = 1; sh["min"] = mn; p["_shrink"] = sh;
        return p;
    }

    Outcome execute(const Json &p, Stats &st) override {
        Outcome out;
        const Json &mk = p.at("make");
        std::string op = p.gets("op", "construct");
        bool stdsleep = p.getb("std_sleep"), inplace = p.getb("model_fills_in_place");
        Log L;
        TasmanianSparseGrid grid, twin, start;
        std::string escaped;
        int d = 1, outs = 1;
        size_t jobs = (size_t)std::max<int64_t>(1, p.geti("jobs", 1)), batch = (size_t)std::max<int64_t>(1, p.geti("batch", 1)), budget = (size_t)std::max<int64_t>(1, p.geti("budget", 10));
        int preloaded = 0;
        bool load_expected_throw = false;

        // ---- the model, played by the harness --------------------------------------------------
        auto enter = [&](const double *x, int npts, size_t tid, size_t ysize) -> size_t {
            simrt::Ignore ig;
            Call c; c.enter = simrt::seq(); c.exit = 0; c.tid = tid; c.npts = npts; c.ysize_on_entry = ysize; c.task = simrt::task_id(); c.t_enter = simrt::now(); c.t_exit = 0;
            for (int i = 0; i < npts; i++) c.pts.push_back(rounded(x + (size_t)i * (size_t)d, d));
            L.raw_x.insert(L.raw_x.end(), x, x + (size_t)npts * (size_t)d);
            int &a = L.active[tid];
            if (a > 0 && L.overlap.empty()) L.overlap = "thread id " + std::to_string(tid) + " entered the model (event " + std::to_string(c.enter) + ") while another call with the same id was still inside";
            a++; L.concurrent++; L.max_concurrent = std::max(L.max_concurrent, L.concurrent);
            L.calls.push_back(c);
            return L.calls.size() - 1;
        };
        auto leave = [&](size_t idx, size_t tid) {
            simrt::Ignore ig;
            L.calls[idx].exit = simrt::seq(); L.calls[idx].t_exit = simrt::now();
            L.active[tid]--; L.concurrent--;
        };
        auto wait = [&](double lat) {
            if (lat <= 0) { simrt::point("model"); return; }
            if (stdsleep) std::this_thread::sleep_for(std::chrono::nanoseconds((long long)(lat * 1e9)));
            else simrt::sleep(lat);
        };
        auto vmodel = [&](std::vector<double> const &x, std::vector<double> &y, size_t tid) {
            int npts = (int)(x.size() / (size_t)d);
            size_t idx = enter(x.data(), npts, tid, y.size());
            wait(latencyOf(p, x.data(), d, tid));
            std::vector<double> v;
            { simrt::Ignore ig; v = modelValues(x, d, outs); }
            // visible to the race detector: the library's buffer is written by the worker
            if (inplace && y.size() >= v.size()) { for (size_t i = 0; i < v.size(); i++) y[i] = v[i]; if (y.size() > v.size()) { simrt::Ignore ig; L.y_longer_than_documented++; } }
            else y = v;
            leave(idx, tid);
        };
        auto amodel = [&](double const x[], double y[], size_t tid) {
            size_t idx = enter(x, 1, tid, (size_t)outs);
            wait(latencyOf(p, x, d, tid));
            double v[8];
            { simrt::Ignore ig; for (int o = 0; o < outs; o++) v[o] = modelValue(x, d, o); }
            for (int o = 0; o < outs; o++) y[o] = v[o];
            leave(idx, tid);
        };

        // ---- body run under the simulator ----------------------------------------------------------
        auto body = [&]() {
            try {
                if (op == "construct" && p.has("large")) {
                    std::string lf = p.gets("large");
                    if (lf == "localp") grid.makeLocalPolynomialGrid(2, 1, 8, 1, TasGrid::rule_localp);
                    else if (lf == "semi-localp") grid.makeLocalPolynomialGrid(3, 1, 6, 2, TasGrid::rule_semilocalp);
                    else grid.makeFourierGrid(2, 1, 5, TasGrid::type_level);
                    std::vector<double> v0 = modelValues(grid.getNeededPoints(), grid.getNumDimensions(), 1);
                    grid.loadNeededValues(v0); preloaded = grid.getNumLoaded();
                    budget = (size_t)preloaded + (size_t)p.geti("budget_extra", 10);
                } else
                doMake(grid, mk);
                d = grid.getNumDimensions(); outs = grid.getNumOutputs();
                if (op == "load") {
                    std::string pre = p.gets("prestate", "fresh");
                    if (pre != "fresh") {
                        std::vector<double> v = modelValues(grid.getNeededPoints(), d, outs, 3.0);
                        grid.loadNeededValues(v);
                        if (pre == "refined") {
                            if (grid.isLocalPolynomial() || grid.isWavelet()) grid.setSurplusRefinement(1e-3, TasGrid::refine_classic, 0, std::vector<int>((size_t)d, (int)mk.geti("depth", 1) + 2));
                            else if (grid.isGlobal() || grid.isSequence() || grid.isFourier()) grid.updateGrid((int)mk.geti("depth", 1) + 1, TasGrid::type_level, std::vector<int>(), std::vector<int>());
                        }
                    }
                    twin.copyGrid(grid);
                    size_t nt = (size_t)p.geti("threads", 2); bool ow = p.getb("overwrite");
                    if (p.getb("vector_overload")) {
                        if (ow) TasGrid::loadNeededValues<TasGrid::mode_parallel, true>(vmodel, grid, nt); else TasGrid::loadNeededValues<TasGrid::mode_parallel, false>(vmodel, grid, nt);
                    } else {
                        std::function<void(double const[], double[], size_t)> f = amodel;
                        if (ow) TasGrid::loadNeededValues<TasGrid::mode_parallel, true>(f, grid, nt); else TasGrid::loadNeededValues<TasGrid::mode_parallel, false>(f, grid, nt);
                    }
                } else {
                    bool local = grid.isLocalPolynomial() || grid.isWavelet();
                    if (p.getb("preloaded") && !p.has("large")) {
                        std::vector<double> v = modelValues(grid.getNeededPoints(), d, outs);
                        grid.loadNeededValues(v); preloaded = grid.getNumLoaded();
                    }
                    start.copyGrid(grid);
                    double tol = p.getd("tol", 1e-3); TasGrid::TypeRefinement crit = refOf(p.gets("criteria", "classic"));
                    std::string t = p.gets("type", "iptotal");
                    std::vector<int> aw = ivec(p, "aniso"); aw.resize(isCurved(t) ? 2 * (size_t)d : (size_t)d, 1);
                    bool byout = p.getb("by_output"), guess = p.getb("initial_guess");
                    std::vector<int> limits((size_t)d, (int)std::max<int64_t>(1, p.geti("limit", 8)));
                    if (p.gets("api", "public") == "public") {
                        if (local) {
                            if (guess) TasGrid::constructSurrogate<TasGrid::mode_parallel, TasGrid::with_initial_guess>(vmodel, budget, jobs, batch, grid, tol, crit, -1, limits);
                            else TasGrid::constructSurrogate<TasGrid::mode_parallel, TasGrid::no_initial_guess>(vmodel, budget, jobs, batch, grid, tol, crit, -1, limits);
                        } else if (byout) {
                            if (guess) TasGrid::constructSurrogate<TasGrid::mode_parallel, TasGrid::with_initial_guess>(vmodel, budget, jobs, batch, grid, depthOf(t), 0, limits);
                            else TasGrid::constructSurrogate<TasGrid::mode_parallel, TasGrid::no_initial_guess>(vmodel, budget, jobs, batch, grid, depthOf(t), 0, limits);
                        } else {
                            if (guess) TasGrid::constructSurrogate<TasGrid::mode_parallel, TasGrid::with_initial_guess>(vmodel, budget, jobs, batch, grid, depthOf(t), aw, limits);
                            else TasGrid::constructSurrogate<TasGrid::mode_parallel, TasGrid::no_initial_guess>(vmodel, budget, jobs, batch, grid, depthOf(t), aw, limits);
                        }
                    } else {
                        auto cand = [&](TasmanianSparseGrid &g) -> std::vector<double> {
                            { simrt::Ignore ig; L.refreshes++; if (L.concurrent > 0) L.refresh_while_running++; }
                            if (local) return g.getCandidateConstructionPoints(tol, crit, -1, limits);
                            if (byout) return g.getCandidateConstructionPoints(depthOf(t), 0, limits);
                            return g.getCandidateConstructionPoints(depthOf(t), aw, limits);
                        };
                        if (guess) TasGrid::constructCommon<TasGrid::mode_parallel, TasGrid::with_initial_guess>(vmodel, budget, jobs, batch, grid, cand, std::string());
                        else TasGrid::constructCommon<TasGrid::mode_parallel, TasGrid::no_initial_guess>(vmodel, budget, jobs, batch, grid, cand, std::string());
                    }
                }
            } catch (std::exception &e) {
                simrt::Ignore ig;
                escaped = std::string(typeid(e).name()) + ": " + e.what();
            }
        };

        simrt::Config cfg = schedConfig(p.at("sched"));
        char ctx[64]; snprintf(ctx, sizeof ctx, "run-index=%lld", (long long)g_current_index); simrt::set_fatal_context(ctx);
        simrt::Result R = simrt::run(cfg, body);

        // ---- evidence ----------------------------------------------------------------------------------
        st.inc("sim.sched_steps", (long)R.steps); st.inc("sim.context_switches", (long)R.switches); st.inc("sim.memory_events", (long)R.mem_events);
        st.inc("sim.simulated_ms", (long)(R.sim_time * 1e3)); st.inc("sim.tasks", (long)R.tasks); st.inc("sim.model_calls", (long)L.calls.size());
        st.inc("fault.spurious_wakeup", (long)R.spurious); st.inc("fault.preemption_at_memory_access", (long)R.preemptions); st.inc("fault.clock_jump_to_timer", (long)R.timed_jumps);
        st.inc(std::string("fault.strategy.") + std::to_string(cfg.strategy));
        st.maxi("max_concurrent_model_calls", (double)L.max_concurrent); st.maxi("max_sched_steps", (double)R.steps);
        if (L.refresh_while_running) st.inc("reach.candidate_refresh_while_jobs_running", L.refresh_while_running);
        if (L.max_concurrent >= 2) st.inc("reach.two_model_calls_overlap");
        st.distinct2.insert(R.sync_hash);
        out.trace.u64(R.trace_hash);
        for (auto &c : L.calls) { out.trace.u64(c.enter); out.trace.u64(c.exit); out.trace.u64(c.tid); for (auto &q : c.pts) for (double v : q.x) out.trace.d(v); }
        Hash sh; sh.s(op); sh.s(mk.gets("family")); sh.s(mk.gets("rule")); sh.i(mk.geti("order")); sh.i(d); sh.i((int64_t)jobs); sh.i((int64_t)batch); sh.i((int64_t)budget); sh.i(p.geti("threads", -1)); sh.s(p.gets("latency")); sh.i(cfg.strategy); sh.u64(R.sync_hash);
        out.shape = sh.h;
        out.nontrivial = R.tasks > 1;

        // ---- oracles ---------------------------------------------------------------------------------------
        {   // the model-call history goes into the replay file of any violation
            Json ex = Json::object(); Json calls = Json::array();
            for (size_t k = 0; k < L.calls.size() && k < 60; k++) { auto &c = L.calls[k]; Json o = Json::object(); o["enter"] = (long long)c.enter; o["exit"] = (long long)c.exit; o["thread_id"] = (long long)c.tid; o["task"] = c.task; o["t_enter"] = c.t_enter; o["t_exit"] = c.t_exit;
                Json xs = Json::array(); for (auto &q : c.pts) for (double v : q.x) xs.push(Json(v)); o["x"] = xs; calls.push(o); }
            ex["model_calls"] = calls; ex["refreshes"] = (long long)L.refreshes; out.extra = ex;
        }
        std::string fam = mk.gets("family");
        if (!escaped.empty()) {
            bool expected = op == "load" && load_expected_throw;
            if (!expected) { out.fail("exception", "C18/" + op + "/exception:" + escaped.substr(0, escaped.find(':')), "an exception escaped: " + escaped); return out; }
        }
        if (!R.races.empty()) {
            auto &r = R.races[0];
            std::string a = r.fnA, b = r.fnB; if (b < a) std::swap(a, b);
            Json arr = Json::array();
            for (auto &q : R.races) { Json o = Json::object(); o["kind"] = q.kind; o["a"] = q.fnA; o["b"] = q.fnB; o["where"] = q.where; Json stv = Json::array(); for (auto &f : q.stackB) stv.push(Json(f)); o["stack"] = stv; arr.push(o); }
            out.extra["reports"] = arr;
            out.fail(r.kind, "C18/" + r.kind + "/" + a + "~" + b, r.kind + std::string(": ") + r.where);
            return out;
        }
        if (!L.overlap.empty()) { out.fail("same-id-overlap", "C18/same-id-overlap/" + op, L.overlap); return out; }
        std::set<Pt> seen; size_t launched = 0; size_t first_over = 0;
        for (size_t k = 0; k < L.calls.size(); k++) {
            auto &c = L.calls[k];
            if (c.exit == 0) { out.fail("unfinished-call", "C18/unfinished-call", "a model call never returned although the procedure did"); return out; }
            for (auto &q : c.pts) {
                if (!seen.insert(q).second) { out.fail("twice", "C18/twice/" + op, "the model was called twice for the same point (call " + std::to_string(k) + ", thread id " + std::to_string(c.tid) + ")"); return out; }
                launched++;
                if (op == "construct" && launched > budget && first_over == 0) first_over = k + 1;
            }
            if (op == "construct" && c.tid >= jobs) st.inc("note.thread_id_out_of_range");
            if (op == "construct" && (size_t)c.npts > batch) st.inc("note.batch_larger_than_max_samples_per_job");
        }
        if (op == "construct") {
            if (p.has("large")) st.inc("reach.large_start_grid_runs");
            if (L.y_longer_than_documented) st.inc("note.y_longer_than_documented_on_entry", L.y_longer_than_documented); // the consequence (values at wrong points) is what the property names
            if (launched > budget) {
                std::string phase = first_over <= jobs ? "initial-launch" : "main-loop";
                out.fail("budget_exceeded", "C18/budget_exceeded/" + phase, std::to_string(launched) + " samples launched, max_num_points = " + std::to_string(budget) + " (" + std::to_string(jobs) + " jobs, batch " + std::to_string(batch) + ")");
                return out;
            }
            if (budget < jobs) st.inc("reach.budget_below_jobs");
            if (launched < budget) st.inc("reach.candidates_exhausted_or_tolerance_reached");
            if (launched == budget) st.inc("reach.budget_reached");
            if (preloaded > 0) st.inc("reach.started_from_loaded_grid");
            // every returned value is loaded at the point it was computed for
            int nl = grid.getNumLoaded();
            if (nl > 0) {
                std::vector<double> lp = grid.getLoadedPoints(); const double *lv = grid.getLoadedValues();
                std::vector<double> mv = modelValues(lp, d, outs);
                for (size_t i = 0; i < mv.size(); i++) if (memcmp(&mv[i], &lv[i], 8) != 0) {
                    out.fail("wrong-value", "C18/wrong-value/construct", "loaded point " + std::to_string(i / (size_t)outs) + " does not carry the value the model returned for it"); return out;
                }
                // the surrogate equals the one obtained by delivering the same samples to a copy of the start grid in one batch, sequentially
                // (nodal exactness itself is pure numerics and not demanded here: e.g. boundary wavelets under a domain transform miss it by rounding of the transform)
                bool comparable = !grid.isLocalPolynomial() || completeHierarchy(grid);
                if (!comparable) st.inc("note.surrogate_oracle_skipped_incomplete_hierarchy");
                else {
                TasmanianSparseGrid ref; ref.copyGrid(start);
                if (!ref.isUsingConstruction()) ref.beginConstruction();
                std::vector<double> ax, ay;
                ax = L.raw_x; ay = modelValues(ax, d, outs);
                if (!ax.empty()) ref.loadConstructedPoints(ax, ay);
                if (ref.getNumLoaded() != nl) { out.fail("missing", "C18/lost-sample/construct", "the final grid holds " + std::to_string(nl) + " loaded points, delivering the same samples sequentially in one batch gives " + std::to_string(ref.getNumLoaded())); return out; }
                std::vector<double> ev, rv; grid.evaluateBatch(lp, ev); ref.evaluateBatch(lp, rv);
                double scale = 1.0; for (double v : rv) scale = std::max(scale, std::fabs(v));
                for (size_t i = 0; i < ev.size(); i++) if (!(std::fabs(ev[i] - rv[i]) <= 1e-9 * scale)) {
                    out.fail("surrogate", "C18/surrogate-mismatch/construct", "the final surrogate differs from the one built sequentially from the same samples at loaded point " + std::to_string(i / (size_t)outs) + " (" + std::to_string(ev[i]) + " vs " + std::to_string(rv[i]) + ")"); return out;
                }
            }
            }
            // nothing returned by the model may be lost: all called points are loaded or (not admissible yet) still parked; loaded ones must be a subset of called + preloaded
            if (nl > 0) {
                std::vector<double> lp = grid.getLoadedPoints();
                long notcalled = 0;
                for (size_t i = 0; i + (size_t)d <= lp.size(); i += (size_t)d) if (!seen.count(rounded(&lp[i], d))) notcalled++;
                if (notcalled > preloaded) { out.fail("phantom", "C18/phantom-point/construct", std::to_string(notcalled - preloaded) + " loaded point(s) were never passed to the model"); return out; }
            }
            out.trace.i(nl);
        } else {
            // loadNeededValues: each point exactly once, result identical to the sequential overload
            bool ow = p.getb("overwrite");
            int expect = ow ? twin.getNumLoaded() : twin.getNumNeeded();
            if (twin.getNumOutputs() > 0 && (int)launched != expect) {
                out.fail("missing", "C18/not-exactly-once/load", std::to_string(launched) + " model calls for " + std::to_string(expect) + " points"); return out;
            }
            if (expect > 0) {
                std::function<void(double const[], double[], size_t)> f = [&](double const x[], double y[], size_t) { for (int o = 0; o < outs; o++) y[o] = modelValue(x, d, o); };
                if (ow) TasGrid::loadNeededValues<TasGrid::mode_sequential, true>(f, twin, 0); else TasGrid::loadNeededValues<TasGrid::mode_sequential, false>(f, twin, 0);
                std::ostringstream a, b; grid.write(a, TasGrid::mode_binary); twin.write(b, TasGrid::mode_binary);
                if (a.str() != b.str()) { out.fail("wrong-value", "C18/wrong-value/load", "the grid loaded by the threaded loadNeededValues differs from the one loaded sequentially"); return out; }
                st.inc("reach.load_compared_with_sequential");
                size_t nt = (size_t)p.geti("threads", 2);
                if (nt > (size_t)expect) st.inc("reach.more_threads_than_points");
                if (nt == 0) st.inc("reach.zero_threads_sequential_fallback");
            }
            out.trace.i(grid.getNumLoaded());
        }
        return out;
    }
};

} // namespace

int main(int argc, char **argv) { C18 e; return engine_main(argc, argv, e); }
