// C15 — DREAM sampling under a simulated environment (envsim):
// the simulator plays the random stream (with injected legal endpoint draws 0.0 / 1.0
// attached to draw kinds), the pdf, the domain test, the update rule and the differential
// weight, logs every callback, and re-executes the documented transition from the log.
#include "sim/engine.hpp"
#include "TasmanianDREAM.hpp"
#include <cmath>
#include <functional>

using namespace sim;
using TasDREAM::TasmanianDREAM;

namespace {

enum DrawKind { DK_J = 0, DK_K = 1, DK_UPDATE = 2, DK_ACCEPT = 3, DK_DIFF = 4, DK_NUM = 5 };
const char *dkname[] = {"j-index", "k-index", "update", "accept", "diff"};

struct Draw { int kind; double v; };
struct InsideCall { std::vector<double> x; bool res; };
struct PdfCall { std::vector<double> cand; std::vector<double> vals; };

struct Env {
    // configuration
    size_t n = 1, d = 1;
    bool logform = false;
    std::string pdfkind, domkind, updkind, diffkind;
    double updmag = 0.0, pdfscale = 1.0;
    std::vector<double> center;
    double domlo = -1, domhi = 1; int dom_after = 0;
    // streams
    Rng draws{0};
    std::vector<std::vector<std::pair<long, double>>> inject{DK_NUM}; // per kind: (nth, value)
    long kindcount[DK_NUM] = {0, 0, 0, 0, 0};
    // phase automaton for draw kinds
    int phase = DK_J;
    long accept_remaining = 0;
    TasmanianDREAM *real = nullptr;
    // logs of the current SampleDREAM call
    std::vector<Draw> drawlog;
    std::vector<double> difflog;
    std::vector<InsideCall> insidelog;
    std::vector<PdfCall> pdflog;
    long inside_calls_total = 0;
    Stats *st = nullptr;

    double gen() {
        if (phase == DK_ACCEPT) { if (accept_remaining > 0) accept_remaining--; else phase = DK_J; }
        int k = phase;
        double v = draws.uniform();
        long nth = kindcount[k]++;
        for (auto &p : inject[k]) if (p.first == nth) { v = p.second; if (st) st->inc(std::string("fault.endpoint_") + (v == 0.0 ? "0" : "1") + "." + dkname[k]); }
        drawlog.push_back({k, v});
        if (k == DK_J) phase = DK_K;
        else if (k == DK_K) phase = DK_UPDATE; // until the differential callback / inside marks otherwise
        return v;
    }
    double diff() {
        double w;
        if (diffkind == "one") w = 1.0;
        else if (diffkind == "half") w = 0.5;
        else if (diffkind == "zero") w = 0.0;
        else if (diffkind == "neg") w = -0.75;
        else { int save = phase; phase = DK_DIFF; w = gen(); phase = save; }
        difflog.push_back(w);
        phase = DK_UPDATE;
        return w;
    }
    // user update implemented by the harness (same arithmetic as the documented built-ins)
    void update(std::vector<double> &x) {
        if (updkind == "user-uniform") { for (auto &v : x) v += updmag * (2.0 * gen() - 1.0); }
        else if (updkind == "user-shift") { for (auto &v : x) v += updmag; }
        // "none": nothing
    }
    // a box domain may be supplied as the library's own TasDREAM::hypercube() object, built by a factory from temporaries (as the C interface does)
    bool use_hypercube = false; TasDREAM::DreamDomain hyper;
    void makeHypercube() { std::vector<double> lo(d, domlo), hi(d, domhi); hyper = TasDREAM::hypercube(lo, hi); }
    bool inside(const std::vector<double> &x) {
        bool r = true;
        if (domkind == "box" && use_hypercube) { r = hyper(x); if (st) st->inc("reach.domain_is_library_hypercube"); }
        else if (domkind == "box") { for (double v : x) if (v < domlo || v > domhi) r = false; }
        else if (domkind == "halfspace") { double s = 0; for (double v : x) s += v; r = (s >= domlo); }
        else if (domkind == "all") r = true;
        else if (domkind == "none") r = false;
        else if (domkind == "box-then-none") { if (inside_calls_total >= dom_after) r = false; else for (double v : x) if (v < domlo || v > domhi) r = false; }
        inside_calls_total++;
        insidelog.push_back({x, r});
        phase = DK_J; // a pdf call (if any proposal is inside) switches to the acceptance phase
        return r;
    }
    // the probability function may be composed by TasDREAM::posterior() from a likelihood(-model) and a prior
    std::string posterior = "none"; double priorscale = 1.0;
    double prior1(const double *x) const { double r2 = 0; for (size_t k = 0; k < d; k++) r2 += x[k] * x[k]; return logform ? -priorscale * r2 : std::exp(-priorscale * r2); }
    double pdf1(const double *x) const {
        double b = base1(x);
        if (posterior == "none") return b;
        return logform ? b + prior1(x) : b * prior1(x);
    }
    double base1(const double *x) const {
        double r2 = 0; for (size_t k = 0; k < d; k++) r2 += (x[k] - center[k]) * (x[k] - center[k]);
        if (pdfkind == "gauss") return logform ? -r2 / pdfscale : std::exp(-r2 / pdfscale);
        if (pdfkind == "flat") return logform ? 0.0 : 1.0;
        if (pdfkind == "zero") return logform ? -INFINITY : 0.0;
        if (pdfkind == "step") { double v = std::floor(4.0 * std::exp(-r2 / pdfscale)) / 4.0; return logform ? std::log(v) : v; } // ties and zeros
        if (pdfkind == "ridge") { double v = 1.0 / (1.0 + std::fabs(x[0] - center[0]) * pdfscale); return logform ? std::log(v) : v; }
        return logform ? 0.0 : 1.0;
    }
    bool throw_pdf_once = false; // fault: the probability callback fails at its next call (as the C/Python wrappers do on a callback error)
    void pdf(const std::vector<double> &cand, std::vector<double> &vals) {
        if (throw_pdf_once) { throw_pdf_once = false; if (st) st->inc("fault.pdf_callback_throws"); throw std::runtime_error("simulated failure of the probability callback"); }
        size_t m = cand.size() / d;
        PdfCall c; c.cand = cand;
        // "The values vector should not be resized": fill what we are given
        if (posterior == "none") { for (size_t k = 0; k < vals.size() && k < m; k++) vals[k] = pdf1(&cand[k * d]); }
        else {
            // the library combines the pieces; the reference for the recorded values is pdf1() above
            auto prior = [this](TasDREAM::TypeSamplingForm, const std::vector<double> &cc, std::vector<double> &pv) { size_t q = cc.size() / d; for (size_t k = 0; k < pv.size() && k < q; k++) pv[k] = prior1(&cc[k * d]); };
            if (posterior == "merged") {
                auto lm = [this](const std::vector<double> &cc, std::vector<double> &lv) { size_t q = cc.size() / d; for (size_t k = 0; k < lv.size() && k < q; k++) lv[k] = base1(&cc[k * d]); };
                if (logform) TasDREAM::posterior<TasDREAM::logform>(lm, prior)(cand, vals); else TasDREAM::posterior<TasDREAM::regform>(lm, prior)(cand, vals);
            } else {
                auto model = [](const std::vector<double> &cc, std::vector<double> &outs) { outs = cc; };
                auto like = [this](TasDREAM::TypeSamplingForm, const std::vector<double> &mo, std::vector<double> &lv) { size_t q = mo.size() / d; for (size_t k = 0; k < lv.size() && k < q; k++) lv[k] = base1(&mo[k * d]); };
                if (logform) TasDREAM::posterior<TasDREAM::logform>(model, like, prior)(cand, vals); else TasDREAM::posterior<TasDREAM::regform>(model, like, prior)(cand, vals);
            }
            if (st) st->inc("reach.pdf_composed_by_posterior");
        }
        c.vals = vals;
        // label the coming acceptance draws: one per in-domain proposal that is not strictly better
        accept_remaining = 0;
        if (real && real->isPDFReady() && insidelog.size() >= n) {
            size_t iv = 0;
            for (size_t i = 0; i < n; i++) {
                if (!insidelog[insidelog.size() - n + i].res) continue;
                if (iv < vals.size() && !(vals[iv] > real->getPDFvalue(i))) accept_remaining++;
                iv++;
            }
            phase = DK_ACCEPT;
        }
        pdflog.push_back(std::move(c));
    }
    void resetLogs() { drawlog.clear(); difflog.clear(); insidelog.clear(); pdflog.clear(); }
};

bool sameBits(double a, double b) { return memcmp(&a, &b, 8) == 0; }
bool sameVec(const std::vector<double> &a, const std::vector<double> &b) {
    if (a.size() != b.size()) return false;
    for (size_t k = 0; k < a.size(); k++) if (!sameBits(a[k], b[k])) return false;
    return true;
}

// Reference model state
struct Model {
    std::vector<double> state, pdfv, hist, histpdf;
    size_t accepted = 0;
    bool pdfready = false;
};

struct Runner;
Runner *g_capi_runner = nullptr; // the C interface takes plain function pointers
extern "C" void tsgDreamSample(int form, int num_burnup, int num_collect, void (*distribution)(int, int, const double[], double[], int *), void *state_pntr,
                               void *domain_grid, double domain_lower[], double domain_upper[], int (*domain_callback)(int, const double[]),
                               const char *iupdate_type, double iupdate_magnitude, void (*iupdate_callback)(int, double[], int *),
                               int dupdate_percent, double (*dupdate_callback)(), const char *random_type, int random_seed, double (*random_callback)(), int *err);

struct Runner {
    Env env;
    bool capi = false; // drive the sampler through the C interface (tsgDreamSample) instead of the C++ templates
    std::unique_ptr<TasmanianDREAM> st;
    Model m;
    bool builtin_update = false; TasDREAM::TypeDistribution dist = TasDREAM::dist_null;

    void callSampleC(int burn, int collect);
    void callSample(int burn, int collect) {
        if (capi) { callSampleC(burn, collect); return; }
        auto pdf = [this](const std::vector<double> &c, std::vector<double> &v) { env.pdf(c, v); };
        auto ins = [this](const std::vector<double> &x) -> bool { return env.inside(x); };
        auto gen = [this]() -> double { return env.gen(); };
        auto dif = [this]() -> double { return env.diff(); };
        env.phase = DK_J;
        if (builtin_update) {
            if (env.logform) TasDREAM::SampleDREAM<TasDREAM::logform>(burn, collect, pdf, ins, *st, dist, env.updmag, dif, gen);
            else TasDREAM::SampleDREAM<TasDREAM::regform>(burn, collect, pdf, ins, *st, dist, env.updmag, dif, gen);
        } else {
            auto upd = [this](std::vector<double> &x) { env.update(x); };
            if (env.logform) TasDREAM::SampleDREAM<TasDREAM::logform>(burn, collect, pdf, ins, *st, upd, dif, gen);
            else TasDREAM::SampleDREAM<TasDREAM::regform>(burn, collect, pdf, ins, *st, upd, dif, gen);
        }
    }

    // Re-execute the documented transition from the log of one SampleDREAM call.
    // Returns "" or a violation "class|detail".
    std::string replayModel(int burn, int collect, Stats &stats, Outcome &out) {
        size_t n = env.n, d = env.d;
        size_t di = 0, wi = 0, ii = 0, pi = 0; // cursors into draw / diff / inside / pdf logs
        auto nextDraw = [&](int kind, double &v) -> bool {
            if (di >= env.drawlog.size()) return false;
            if (env.drawlog[di].kind != kind) stats.inc("sanity.draw_label_mismatch");
            v = env.drawlog[di++].v; return true;
        };
        if (!m.pdfready) {
            // first call evaluates the pdf on the initial state
            if (pi >= env.pdflog.size()) return "transition|initial pdf evaluation missing";
            if (!sameVec(env.pdflog[pi].cand, m.state)) return "transition|initial pdf evaluated at a different state";
            m.pdfv = env.pdflog[pi].vals; pi++;
            m.pdfready = true;
        }
        int total = std::max(burn, 0) + std::max(collect, 0);
        for (int t = 0; t < total; t++) {
            std::vector<std::vector<double>> prop(n);
            std::vector<char> valid(n, 0);
            std::vector<double> cand;
            for (size_t i = 0; i < n; i++) {
                double uj, uk;
                if (!nextDraw(DK_J, uj) || !nextDraw(DK_K, uk)) return "transition|index draws missing or out of order";
                size_t j = (size_t)(uj * (double)n), k = (size_t)(uk * (double)n);
                if (j >= n) { j = n - 1; stats.inc("reach.j_clamped"); }
                if (k >= n) { k = n - 1; stats.inc("reach.k_clamped"); }
                if (wi >= env.difflog.size()) return "transition|differential weight not requested";
                // the random differential weight consumed one DK_DIFF draw
                if (env.diffkind == "random") { double dummy; if (!nextDraw(DK_DIFF, dummy)) return "transition|diff draw missing"; }
                double w = env.difflog[wi++];
                std::vector<double> x(m.state.begin() + i * d, m.state.begin() + (i + 1) * d);
                if (w != 0.0) for (size_t c = 0; c < d; c++) x[c] += w * (m.state[k * d + c] - m.state[j * d + c]);
                // independent update
                if (builtin_update) {
                    if (dist == TasDREAM::dist_uniform && env.updmag != 0.0) {
                        for (auto &v : x) { double u; if (!nextDraw(DK_UPDATE, u)) return "transition|update draw missing"; v += env.updmag * (2.0 * u - 1.0); }
                    } else if (dist == TasDREAM::dist_gaussian && env.updmag != 0.0) {
                        bool tictoc = false; double g = 0.0;
                        for (auto &v : x) {
                            tictoc = !tictoc;
                            if (tictoc) {
                                double u1, u2; if (!nextDraw(DK_UPDATE, u1) || !nextDraw(DK_UPDATE, u2)) return "transition|update draw missing";
                                double r = env.updmag * std::sqrt(-2.0 * std::log(u1)), tt = 2.0 * TasDREAM::DreamMaths::pi * u2;
                                v += r * std::cos(tt); g = r * std::sin(tt);
                            } else v += g;
                        }
                    }
                } else if (env.updkind == "user-uniform") {
                    for (auto &v : x) { double u; if (!nextDraw(DK_UPDATE, u)) return "transition|update draw missing"; v += env.updmag * (2.0 * u - 1.0); }
                } else if (env.updkind == "user-shift") {
                    for (auto &v : x) v += env.updmag;
                }
                if (ii >= env.insidelog.size()) return "transition|domain test not called for a proposal";
                if (!sameVec(env.insidelog[ii].x, x)) {
                    char b[200]; snprintf(b, sizeof b, "iteration %d chain %zu: proposal passed to the domain test differs from s_i + w(s_k - s_j) + update (j=%zu k=%zu w=%g)", t, i, j, k, w);
                    return std::string("proposal|") + b;
                }
                valid[i] = env.insidelog[ii].res ? 1 : 0; ii++;
                prop[i] = x;
                if (valid[i]) cand.insert(cand.end(), x.begin(), x.end());
            }
            std::vector<double> vals;
            if (!cand.empty()) {
                if (pi >= env.pdflog.size()) return "transition|pdf not evaluated for in-domain proposals";
                if (!sameVec(env.pdflog[pi].cand, cand)) return "domain|pdf evaluated at a list that is not the in-domain proposals";
                vals = env.pdflog[pi].vals; pi++;
                if (vals.size() != cand.size() / d) return "transition|values vector has the wrong size";
            } else stats.inc("reach.all_proposals_outside");
            size_t iv = 0, acc = 0;
            std::vector<double> ns(n * d), nv(n);
            for (size_t i = 0; i < n; i++) {
                bool keep = false;
                if (valid[i]) {
                    double pn = vals[iv], pc = m.pdfv[i];
                    if (pn > pc) { keep = true; stats.inc("reach.accept_higher"); }
                    else {
                        double u; if (!nextDraw(DK_ACCEPT, u)) return "transition:accept|acceptance draw missing";
                        if (!env.logform) keep = (pn / pc >= u); else keep = (pn - pc >= std::log(u));
                        if (pn == pc) stats.inc("reach.tie");
                        if (std::isnan(env.logform ? pn - pc : pn / pc)) stats.inc("reach.nan_ratio");
                        stats.inc(keep ? "reach.accept_ratio" : "reach.reject_ratio");
                    }
                } else stats.inc("reach.reject_outside");
                if (keep) { std::copy(prop[i].begin(), prop[i].end(), ns.begin() + i * d); nv[i] = vals[iv]; acc++; }
                else { std::copy(m.state.begin() + i * d, m.state.begin() + (i + 1) * d, ns.begin() + i * d); nv[i] = m.pdfv[i]; }
                if (valid[i]) iv++;
            }
            m.state = ns; m.pdfv = nv;
            if (t >= burn) { m.hist.insert(m.hist.end(), ns.begin(), ns.end()); m.histpdf.insert(m.histpdf.end(), nv.begin(), nv.end()); m.accepted += acc; }
        }
        if (di != env.drawlog.size()) {
            char b[160]; snprintf(b, sizeof b, "%zu random draws consumed, the documented transition needs %zu (next unexplained draw kind: %s)", env.drawlog.size(), di, dkname[env.drawlog[di].kind]);
            return std::string("transition:draws|") + b;
        }
        if (ii != env.insidelog.size()) return "transition|extra domain tests";
        if (pi != env.pdflog.size()) return "transition|extra pdf evaluations";
        (void)out;
        return "";
    }
};

void c_pdf(int ns, int nd, const double x[], double y[], int *err) { std::vector<double> c(x, x + (size_t)ns * (size_t)nd), v((size_t)ns); g_capi_runner->env.pdf(c, v); for (int i = 0; i < ns; i++) y[i] = v[(size_t)i]; *err = 0; }
int c_inside(int nd, const double x[]) { return g_capi_runner->env.inside(std::vector<double>(x, x + nd)) ? 1 : 0; }
void c_iupdate(int nd, double x[], int *err) { std::vector<double> v(x, x + nd); g_capi_runner->env.update(v); for (int i = 0; i < nd; i++) x[i] = v[(size_t)i]; *err = 0; }
double c_dupdate() { return g_capi_runner->env.diff(); }
double c_random() { return g_capi_runner->env.gen(); }
void Runner::callSampleC(int burn, int collect) {
    g_capi_runner = this;
    env.phase = DK_J;
    int err = 0;
    const char *type = !builtin_update ? "null" : dist == TasDREAM::dist_uniform ? "uniform" : dist == TasDREAM::dist_gaussian ? "gaussian" : "null";
    tsgDreamSample(env.logform ? 1 : 0, burn, collect, c_pdf, st.get(), nullptr, nullptr, nullptr, c_inside, type, env.updmag, c_iupdate, -1, c_dupdate, "callback", 7, c_random, &err);
    g_capi_runner = nullptr;
    if (err != 0) env.st->inc("note.c_interface_returned_error");
}

void failSplit(Outcome &o, const std::string &cd) {
    size_t p = cd.find('|');
    std::string cls = cd.substr(0, p), det = p == std::string::npos ? "" : cd.substr(p + 1);
    o.fail(cls, "C15/" + cls, det);
}

class C15 : public Engine {
public:
    const char *property() const override { return "C15"; }

    Json generate(Rng rng, const std::string &tier) override {
        (void)tier;
        Rng w = rng.fork("workload"), f = rng.fork("faults");
        Json p = Json::object();
        int n = w.chance(0.15) ? 1 : w.range(2, 8), d = w.range(1, 4);
        p["chains"] = n; p["dims"] = d;
        p["form"] = w.chance(0.5) ? "reg" : "log";
        p["pdf"] = w.pick<std::string>({"gauss", "gauss", "gauss", "flat", "zero", "step", "step", "ridge"});
        p["pdfscale"] = w.pick<double>({0.05, 0.5, 2.0});
        Json c = Json::array(); for (int k = 0; k < d; k++) c.push(Json(w.uniform(-0.5, 0.5))); p["center"] = c;
        p["domain"] = w.pick<std::string>({"box", "box", "box", "halfspace", "all", "none", "box-then-none"});
        p["domlo"] = -1.0; p["domhi"] = 1.0; p["dom_after"] = w.range(0, 40);
        p["update"] = w.pick<std::string>({"builtin-uniform", "builtin-uniform", "builtin-gaussian", "builtin-null", "user-uniform", "user-shift", "none"});
        p["updmag"] = w.pick<double>({0.0, 0.01, 0.2, 0.7});
        p["diff"] = w.pick<std::string>({"one", "half", "zero", "neg", "random"});
        Json init = Json::array(); for (int k = 0; k < n * d; k++) init.push(Json(w.uniform(-0.9, 0.9))); p["init"] = init;
        int B = w.range(0, 8), C = w.range(0, 8);
        if (w.chance(0.1)) B = -w.range(0, 2);
        p["burn"] = B; p["collect"] = C;
        int total = std::max(B, 0) + C;
        p["split"] = w.chance(0.7) ? w.range(0, total) : -1; // -1: do not split
        p["draw_seed"] = (long long)(w.next() >> 1);
        p["c_interface"] = w.chance(0.2);
        p["pdf_fails_first"] = w.chance(0.08);
        p["hypercube"] = w.chance(0.3);
        p["posterior"] = w.pick<std::string>({"none", "none", "none", "merged", "three"}); p["priorscale"] = w.pick<double>({0.1, 1.0, 3.0});
        if (w.chance(0.3)) { // a second run on the same state object after the caller re-seeded the chains
            Json rs = Json::object(); rs["how"] = w.chance(0.5) ? "function" : "vector";
            Json stv = Json::array(); for (int k = 0; k < n * d; k++) stv.push(Json(w.uniform(-0.9, 0.9))); rs["state"] = stv;
            rs["burn"] = w.range(0, 4); rs["collect"] = w.range(0, 5); rs["clear_history"] = w.chance(0.4);
            p["reseed"] = rs;
        }
        // faults: endpoint draws attached to draw kinds
        Json inj = Json::array();
        int nf = f.chance(0.25) ? 0 : f.range(1, 3);
        for (int k = 0; k < nf; k++) {
            Json e = Json::object();
            e["kind"] = f.pick<std::string>({"j-index", "k-index", "k-index", "update", "accept", "accept", "diff"});
            e["nth"] = f.range(0, std::max(1, total * n / 2));
            e["value"] = f.chance(0.6) ? 1.0 : 0.0;
            inj.push(e);
        }
        p["inject"] = inj;
        Json sh = Json::object();
        sh["lists"] = Json::from(std::vector<std::string>{"inject"});
        sh["ints"] = Json::from(std::vector<std::string>{"burn", "collect", "chains", "dims", "split"});
        Json mn = Json::object(); mn["chains"] = 1; mn["dims"] = 1; mn["split"] = -1; sh["min"] = mn;
        p["_shrink"] = sh;
        return p;
    }

    void setupEnv(Env &env, const Json &p, Stats &st) {
        env.n = (size_t)p.geti("chains", 1); env.d = (size_t)p.geti("dims", 1);
        env.logform = p.gets("form") == "log";
        env.pdfkind = p.gets("pdf", "gauss"); env.pdfscale = p.getd("pdfscale", 1.0);
        env.center = p.has("center") ? p.at("center").dvec() : std::vector<double>();
        env.center.resize(env.d, 0.0);
        env.domkind = p.gets("domain", "box"); env.domlo = p.getd("domlo", -1); env.domhi = p.getd("domhi", 1); env.dom_after = (int)p.geti("dom_after", 0);
        std::string u = p.gets("update", "none");
        env.updkind = u; env.updmag = p.getd("updmag", 0.0);
        env.diffkind = p.gets("diff", "one");
        env.use_hypercube = p.getb("hypercube") && env.domkind == "box"; if (env.use_hypercube) env.makeHypercube();
        env.posterior = p.gets("posterior", "none"); env.priorscale = p.getd("priorscale", 1.0);
        env.draws = Rng((uint64_t)p.geti("draw_seed", 1));
        env.st = &st;
        if (p.has("inject")) for (auto const &e : p.at("inject").a) {
            std::string k = e.gets("kind");
            for (int q = 0; q < DK_NUM; q++) if (k == dkname[q]) env.inject[q].push_back({(long)e.geti("nth"), e.getd("value")});
        }
    }

    // one complete execution of the list of calls on a fresh state; checks every call against the model
    bool runCalls(const Json &p, const std::vector<std::pair<int, int>> &calls, Stats &st, Outcome &out, Runner &r, bool check, const Json *reseed = nullptr) {
        setupEnv(r.env, p, st);
        std::string u = r.env.updkind;
        r.builtin_update = u.rfind("builtin-", 0) == 0;
        r.dist = u == "builtin-uniform" ? TasDREAM::dist_uniform : u == "builtin-gaussian" ? TasDREAM::dist_gaussian : TasDREAM::dist_null;
        r.capi = p.getb("c_interface");
        if (r.capi) {
            st.inc("reach.sampled_through_c_interface");
            // in the C interface the type "null" means "call the user's update callback": the built-in null update becomes a callback that does nothing
            if (u == "builtin-null") { r.builtin_update = false; r.env.updkind = "none"; }
        }
        size_t n = r.env.n, d = r.env.d;
        std::vector<double> init = p.has("init") ? p.at("init").dvec() : std::vector<double>();
        init.resize(n * d, 0.0);
        r.st.reset(new TasmanianDREAM((int)n, (int)d));
        r.st->setState(init);
        r.env.real = r.st.get();
        r.m = Model(); r.m.state = init;
        std::vector<std::vector<double>> allowed; // initial states + proposals accepted by the domain test
        for (size_t i = 0; i < n; i++) allowed.emplace_back(init.begin() + i * d, init.begin() + (i + 1) * d);
        size_t callno = 0;
        if (p.getb("pdf_fails_first") && !r.capi) {
            // the very first evaluation of the probability (initialisation of the chain values) fails; the caller catches the error and
            // retries on the same state object: the retry must behave as a first call (nothing may have been marked as initialised)
            r.env.resetLogs(); r.env.throw_pdf_once = true;
            size_t h0 = r.st->getNumHistory(); bool threw = false;
            try { r.callSample(calls.empty() ? 1 : calls[0].first, calls.empty() ? 1 : calls[0].second); } catch (std::runtime_error &) { threw = true; }
            r.env.throw_pdf_once = false;
            if (threw) {
                st.inc("reach.first_pdf_evaluation_failed");
                if (r.st->getNumHistory() != h0) { out.fail("history-size", "C15/history-size/after-failed-callback", "samples were recorded by a call that failed in its first probability evaluation"); return false; }
                // the random stream restarts for the retry: re-create the environment streams so that the reference twin sees the same draws
                setupEnv(r.env, p, st);
            }
        }
        for (auto const &c : calls) {
            if (reseed && callno++ == 1) {
                // the caller re-seeds the chains between two runs on the same state object (both documented overloads);
                // the next run has to evaluate the probability at the new positions
                std::vector<double> ns = reseed->at("state").dvec(); ns.resize(n * d, 0.1);
                if (reseed->gets("how") == "function") { size_t k = 0; r.st->setState([&](double *x) { for (size_t q = 0; q < d; q++) x[q] = ns[k * d + q]; k++; }); st.inc("reach.reseed_by_function"); }
                else { r.st->setState(ns); st.inc("reach.reseed_by_vector"); }
                r.m.state = ns; r.m.pdfready = false;
                if (reseed->getb("clear_history")) { r.st->clearHistory(); r.m.hist.clear(); r.m.histpdf.clear(); r.m.accepted = 0; st.inc("reach.history_cleared_between_runs"); }
                for (size_t i = 0; i < n; i++) allowed.emplace_back(ns.begin() + i * d, ns.begin() + (i + 1) * d);
            }
            r.env.resetLogs();
            size_t h0 = r.st->getNumHistory();
            r.callSample(c.first, c.second);
            if (!check) continue;
            out.trace.vec(r.st->getHistory()); out.trace.vec(r.st->getHistoryPDF());
            out.trace.u64(r.env.drawlog.size()); out.trace.u64(r.env.insidelog.size());
            for (auto &ic : r.env.insidelog) if (ic.res) allowed.push_back(ic.x);
            st.inc("env.draws", (long)r.env.drawlog.size()); st.inc("env.domain_tests", (long)r.env.insidelog.size()); st.inc("env.pdf_calls", (long)r.env.pdflog.size());
            std::string v = r.replayModel(c.first, c.second, st, out);
            if (!v.empty()) { failSplit(out, v); return false; }
            // books
            size_t expect = (size_t)std::max(c.second, 0) * n;
            if (r.st->getNumHistory() != h0 + expect) {
                char b[120]; snprintf(b, sizeof b, "history grew by %zu, expected num_collect x chains = %zu", r.st->getNumHistory() - h0, expect);
                out.fail("history-size", "C15/history-size", b); return false;
            }
            if (!sameVec(r.st->getHistory(), r.m.hist)) { out.fail("history", "C15/history", "recorded samples differ from the states after the collected iterations"); return false; }
            if (!sameVec(r.st->getHistoryPDF(), r.m.histpdf)) { out.fail("history-pdf", "C15/history-pdf", "recorded pdf values differ from the pdf at the recorded samples"); return false; }
            // every recorded pdf value equals the pdf function at the recorded sample (pure pdf)
            {
                auto const &H = r.st->getHistory(); auto const &HP = r.st->getHistoryPDF();
                for (size_t s = 0; s < HP.size(); s++) {
                    double pv = r.env.pdf1(&H[s * d]);
                    if (!sameBits(pv, HP[s]) && !(std::isnan(pv) && std::isnan(HP[s]))) { out.fail("history-pdf", "C15/history-pdf", "getHistoryPDF differs from the probability function at the recorded sample"); return false; }
                }
                for (size_t s = 0; s < HP.size(); s++) {
                    bool ok = false;
                    for (auto const &a : allowed) if (memcmp(a.data(), &H[s * d], d * sizeof(double)) == 0) { ok = true; break; }
                    if (!ok) { out.fail("domain", "C15/domain", "a recorded sample was never accepted by the domain test"); return false; }
                }
            }
            // current state and pdf
            std::vector<double> cs(n * d);
            for (size_t i = 0; i < n; i++) r.st->getChainState((int)i, &cs[i * d]);
            if (!sameVec(cs, r.m.state)) { out.fail("transition:state", "C15/transition:state", "chain state after the call differs from the documented transition"); return false; }
            for (size_t i = 0; i < n; i++) if (!sameBits(r.st->getPDFvalue(i), r.m.pdfv[i])) { out.fail("transition:pdf", "C15/transition:pdf", "pdf value of a chain differs from the documented transition"); return false; }
            double rate = r.m.histpdf.empty() ? 0.0 : ((double)r.m.accepted) / ((double)r.m.histpdf.size());
            if (!sameBits(rate, r.st->getAcceptanceRate())) {
                char b[120]; snprintf(b, sizeof b, "acceptance rate %.17g, moves in collected iterations give %.17g", r.st->getAcceptanceRate(), rate);
                out.fail("accept-count", "C15/accept-count", b); return false;
            }
        }
        return true;
    }

    Outcome execute(const Json &p, Stats &st) override {
        Outcome out;
        int B = (int)p.geti("burn", 0), C = (int)p.geti("collect", 0);
        int split = (int)p.geti("split", -1);
        int Bp = std::max(B, 0), total = Bp + std::max(C, 0);
        std::vector<std::pair<int, int>> single{{B, C}}, two;
        if (split >= 0 && split <= total) {
            if (split <= Bp) two = {{split, 0}, {Bp - split, C}};
            else two = {{Bp, split - Bp}, {0, C - (split - Bp)}};
        }
        Runner r1;
        Hash shape; shape.s(p.gets("form")); shape.s(p.gets("pdf")); shape.s(p.gets("domain")); shape.s(p.gets("update")); shape.s(p.gets("diff"));
        shape.i(p.geti("chains")); shape.i(p.geti("dims")); shape.i(B); shape.i(C); shape.i(split);
        if (p.has("inject")) for (auto const &e : p.at("inject").a) { shape.s(e.gets("kind")); shape.i(e.geti("nth")); shape.d(e.getd("value")); }
        out.shape = shape.h;
        out.nontrivial = total > 0;
        if (!runCalls(p, single, st, out, r1, true)) return out;
        st.inc("runs.single");
        if (!two.empty()) {
            Runner r2; Outcome o2;
            Stats dummy;
            if (!runCalls(p, two, dummy, o2, r2, true)) { out.fail(o2.cls, o2.signature, "(split run) " + o2.detail); return out; }
            st.inc("runs.split");
            bool same = sameVec(r1.st->getHistory(), r2.st->getHistory()) && sameVec(r1.st->getHistoryPDF(), r2.st->getHistoryPDF()) &&
                        sameBits(r1.st->getAcceptanceRate(), r2.st->getAcceptanceRate()) && sameVec(r1.m.state, r2.m.state) && sameVec(r1.m.pdfv, r2.m.pdfv);
            if (!same) { out.fail("split", "C15/split", "two consecutive runs differ from one run of the combined length under the same stream"); return out; }
        }
        if (p.has("reseed") && p.at("reseed").isObj()) {
            const Json &rs = p.at("reseed");
            Runner r3; Outcome o3; Stats d3;
            std::vector<std::pair<int, int>> calls{{B, C}, {(int)rs.geti("burn", 1), (int)rs.geti("collect", 1)}};
            if (!runCalls(p, calls, st, o3, r3, true, &rs)) { out.fail(o3.cls, o3.signature + "/after-reseed", "(second run after setState) " + o3.detail); return out; }
            st.inc("runs.reseeded");
        }
        return out;
    }
};

} // namespace

int main(int argc, char **argv) { C15 e; return engine_main(argc, argv, e); }
