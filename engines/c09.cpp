// C09 — delivery simulation: the samples of a target set travel from the "model workers" to the
// grid through a channel the simulator owns. It decides the permutation, the batch partition and
// the interleaving of deliveries with candidate queries, write/read and copies of the half-built
// grid (reordering / batching / delay; never loss or duplication). Reference: the same data
// loaded in one batch on a twin, plus a coordinate -> value map.
#include "sim/engine.hpp"
#include "sim/tsg_common.hpp"
#include <map>

using namespace sim;
using namespace tsgsim;

namespace {

struct Key { std::vector<double> x; bool operator<(const Key &o) const { return x < o.x; } };

std::string fmtPoint(const double *x, int d) { std::string s = "("; char b[40]; for (int k = 0; k < d; k++) { snprintf(b, sizeof b, "%s%.6g", k ? "," : "", x[k]); s += b; } return s + ")"; }

class C09 : public Engine {
public:
    const char *property() const override { return "C09"; }

    Json generate(Rng rng, const std::string &tier) override {
        Rng w = rng.fork("workload"), s = rng.fork("schedule");
        Json p = Json::object();
        GenOpts go; go.min_outs = 1; go.max_outs = 3; go.nested_only = true; go.max_depth = 3; go.max_points = tier == "thorough" ? 200 : 120;
        Json mk = genMake(w, go);
        // construction is driven without conformal maps (see tsg_common.hpp)
        Json mk2 = Json::object(); for (auto &kv : mk.o) if (kv.first != "conformal") mk2[kv.first] = kv.second;
        p["make"] = mk2;
        int d = (int)mk2.geti("dims");
        p["start"] = w.pick<std::string>({"fresh", "fresh", "loaded"});
        Json t = Json::object();
        t["depth"] = (int)mk2.geti("depth") + w.range(0, 2);
        std::string ty = w.pick(depthTypes()); t["type"] = ty; t["aniso"] = genAniso(w, d, ty);
        p["target"] = t;
        // sparse targets: a seeded part of the target points is never delivered, so the delivered set is not parent-closed
        // ("exactly the points of the target set that form an admissible grid"); 0 = the complete target
        p["thin"] = w.pick<double>({0.0, 0.0, 0.0, 0.1, 0.25, 0.5}); p["thin_seed"] = (long long)(w.next() >> 40);
        p["order"] = s.pick<std::string>({"shuffle", "shuffle", "shuffle", "sorted", "reverse"});
        p["perm_seed"] = (long long)(s.next() >> 2);
        Json ev = Json::array();
        int n = s.range(0, 14);
        for (int k = 0; k < n; k++) {
            Json e = Json::object();
            std::string kind = s.pick<std::string>({"deliver", "deliver", "deliver", "deliver", "deliver", "cand", "cand", "cand", "writeread", "copy", "begin", "copysub"});
            e["k"] = kind;
            if (kind == "deliver") e["n"] = s.pick<int>({1, 1, 1, 2, 3, 5, 9});
            if (kind == "cand") { std::string ct = s.pick<std::string>({"iptotal", "level", "ipcurved", "iphyperbolic"}); e["type"] = ct; e["aniso"] = genAniso(s, d, ct, 1.0); e["tol"] = s.pick<double>({0.0, 1e-6, 1e-3}); e["criteria"] = s.pick<std::string>({"classic", "parents", "direction", "fds", "stable"}); e["by_output"] = s.chance(0.3); }
            if (kind == "writeread") e["binary"] = s.chance(0.5);
            if (kind == "copysub") { e["lo"] = s.range(0, 2); e["len"] = s.range(0, 2); }
            ev.push(e);
        }
        p["events"] = ev;
        p["rest"] = s.pick<std::string>({"single", "single", "batch", "pairs"});
        Json sh = Json::object(); sh["lists"] = Json::from(std::vector<std::string>{"events"}); sh["ints"] = Json::from(std::vector<std::string>{"target.depth", "make.depth", "make.outs", "make.dims"});
        Json mn = Json::object(); mn["make.dims"] = 1; mn["make.outs"] = 1; sh["min"] = mn; p["_shrink"] = sh;
        return p;
    }

    static std::vector<double> candidates(TasmanianSparseGrid &g, const Json &e) {
        int d = g.getNumDimensions();
        if (g.isLocalPolynomial() || g.isWavelet()) return g.getCandidateConstructionPoints(e.getd("tol", 1e-3), refOf(e.gets("criteria", "classic")), -1);
        std::string t = e.gets("type", "iptotal");
        if (e.getb("by_output") && g.getNumLoaded() > 0) return g.getCandidateConstructionPoints(depthOf(t), 0);
        std::vector<int> a = ivec(e, "aniso"); a.resize(isCurved(t) ? 2 * (size_t)d : (size_t)d, 1);
        return g.getCandidateConstructionPoints(depthOf(t), a);
    }

    Outcome execute(const Json &p, Stats &st) override {
        Outcome out;
        const Json &mk = p.at("make");
        TasmanianSparseGrid g; doMake(g, mk);
        int d = g.getNumDimensions(), outs = g.getNumOutputs(), out_offset = 0; // a copy of an output sub-range (event "copysub") shifts the outputs
        auto modelVals = [&](const std::vector<double> &pts) { size_t n = pts.size() / (size_t)d; std::vector<double> v(n * (size_t)outs); for (size_t i = 0; i < n; i++) for (int o = 0; o < outs; o++) v[i * (size_t)outs + (size_t)o] = modelValue(&pts[i * (size_t)d], d, o + out_offset); return v; };
        std::string fam = familyName(g), rule = TasGrid::IO::getRuleString(g.getRule());
        std::string ordcls = g.isLocalPolynomial() ? ("order" + std::to_string(g.getOrder())) : g.isWavelet() ? ("order" + std::to_string(g.getOrder())) : "na";
        std::string base = "C09/" + fam + "/" + rule + "/" + ordcls + "/";
        if (outs == 0) { out.nontrivial = false; return out; }
        // target set: the points of a second grid of the same family (lower / parent complete), united with the start grid
        Json tm = Json::object(); for (auto &kv : mk.o) tm[kv.first] = kv.second;
        const Json &tg = p.at("target");
        tm["depth"] = tg.geti("depth", 1);
        if (fam == "global" || fam == "sequence" || fam == "fourier") { tm["type"] = tg.gets("type", "level"); tm["aniso"] = tg.has("aniso") ? tg.at("aniso") : Json::array(); }
        TasmanianSparseGrid T; doMake(T, tm);
        std::map<Key, std::vector<double>> delivered; // coordinate -> value of everything the grid has been given
        std::vector<double> target = T.getPoints();
        { std::vector<double> gp = g.getPoints(); target.insert(target.end(), gp.begin(), gp.end()); }
        std::map<Key, int> tset; // target point -> 0 not delivered, 1 delivered / initially loaded
        for (size_t i = 0; i + d <= target.size(); i += d) tset[Key{std::vector<double>(target.begin() + i, target.begin() + i + d)}] = 0;
        bool startLoaded = p.gets("start", "fresh") == "loaded";
        if (startLoaded) {
            std::vector<double> np = g.getNeededPoints(), nv = modelVals(np);
            g.loadNeededValues(nv);
            for (size_t i = 0; i < np.size() / d; i++) { Key k{std::vector<double>(np.begin() + i * d, np.begin() + (i + 1) * d)}; delivered[k] = std::vector<double>(nv.begin() + i * outs, nv.begin() + (i + 1) * outs); tset[k] = 1; }
        }
        g.beginConstruction();
        TasmanianSparseGrid twin(g);
        // the sample stream
        std::vector<std::vector<double>> samples;
        double thin = p.getd("thin", 0.0); bool thinned = false;
        for (auto &kv : tset) if (kv.second == 0) {
            if (thin > 0) { Hash h; h.i(p.geti("thin_seed", 1)); for (double v : kv.first.x) h.d(v); if ((double)(h.h >> 11) * (1.0 / 9007199254740992.0) < thin) { thinned = true; continue; } }
            samples.push_back(kv.first.x);
        }
        if (thinned) st.inc("reach.sparse_target_not_parent_closed");
        std::string order = p.gets("order", "shuffle");
        if (order == "shuffle") { Rng r((uint64_t)p.geti("perm_seed", 1)); r.shuffle(samples); }
        else if (order == "reverse") std::reverse(samples.begin(), samples.end());
        size_t total = tset.size(), nsamples = samples.size();
        Hash sh; sh.u64(shapeKey(g)); sh.u64(nsamples); sh.s(order); sh.i(p.geti("perm_seed")); sh.s(p.gets("rest"));
        if (p.has("events")) for (auto const &e : p.at("events").a) { sh.s(e.gets("k")); sh.i(e.geti("n")); }
        out.shape = sh.h; out.nontrivial = nsamples > 1;
        st.inc("family." + fam); st.inc(startLoaded ? "start.loaded" : "start.fresh");
        st.inc("samples.delivered", (long)nsamples);

        size_t next = 0; int prevLoaded = g.getNumLoaded(); bool usedSingle = false, usedBatch = false;
        std::string failure;
        auto checkInvariants = [&](const char *when) -> bool {
            int nl = g.getNumLoaded();
            if (nl < prevLoaded) { out.fail("loaded-decreased", base + "loaded-decreased", std::string(when) + ": loaded points went from " + std::to_string(prevLoaded) + " to " + std::to_string(nl)); return false; }
            if (nl > prevLoaded) st.inc("reach.delivery_promoted_points");
            prevLoaded = nl;
            std::vector<double> lp = g.getLoadedPoints(); const double *lv = g.getLoadedValues();
            for (int i = 0; i < nl; i++) {
                Key k{std::vector<double>(lp.begin() + (size_t)i * d, lp.begin() + (size_t)(i + 1) * d)};
                auto it = delivered.find(k);
                if (it == delivered.end()) { out.fail("undelivered-point", base + "undelivered-point", std::string(when) + ": loaded point " + fmtPoint(k.x.data(), d) + " was never delivered"); return false; }
                for (int o = 0; o < outs; o++) if (memcmp(&lv[(size_t)i * outs + o], &it->second[o], 8) != 0) {
                    char b[200]; snprintf(b, sizeof b, "%s: loaded point %s output %d holds %.17g, delivered %.17g", when, fmtPoint(k.x.data(), d).c_str(), o, lv[(size_t)i * outs + o], it->second[o]);
                    out.fail("value-mismatch", base + (usedSingle && !usedBatch ? "single" : usedBatch && !usedSingle ? "batch" : "mixed") + "/value-mismatch", b); return false;
                }
            }
            if ((size_t)nl < delivered.size()) st.inc("reach.samples_parked");
            return true;
        };
        auto deliver = [&](size_t n) -> bool {
            n = std::min(n, nsamples - next);
            if (n == 0) return true;
            std::vector<double> px, py;
            for (size_t i = 0; i < n; i++) { auto &x = samples[next + i]; px.insert(px.end(), x.begin(), x.end()); }
            py = modelVals(px);
            for (size_t i = 0; i < n; i++) { Key k{samples[next + i]}; delivered[k] = std::vector<double>(py.begin() + i * outs, py.begin() + (i + 1) * outs); }
            next += n;
            if (n == 1) { usedSingle = true; st.inc("deliver.single"); } else { usedBatch = true; st.inc("deliver.batch"); }
            g.loadConstructedPoints(px, py);
            return checkInvariants("after a delivery");
        };
        int lastWasCand = 0;
        if (p.has("events")) for (auto const &e : p.at("events").a) {
            std::string k = e.gets("k");
            if (k == "deliver") { if (lastWasCand) st.inc("reach.delivery_between_candidate_queries"); if (!deliver((size_t)std::max<int64_t>(1, e.geti("n", 1)))) return out; lastWasCand = 0; }
            else if (k == "cand") {
                std::vector<double> c;
                try { c = candidates(g, e); } catch (std::exception &ex) { out.fail("candidate-exception", base + "candidate-exception", ex.what()); return out; }
                st.inc("fault.candidate_query_interleaved"); lastWasCand = 1;
                std::vector<double> lp = g.getLoadedPoints(); std::map<Key, int> ls;
                for (size_t i = 0; i + d <= lp.size(); i += d) ls[Key{std::vector<double>(lp.begin() + i, lp.begin() + i + d)}] = 1;
                for (size_t i = 0; i + d <= c.size(); i += d) if (ls.count(Key{std::vector<double>(c.begin() + i, c.begin() + i + d)})) {
                    out.fail("loaded-candidate", base + "loaded-candidate", "candidate list contains the loaded point " + fmtPoint(&c[i], d)); return out;
                }
                if (!checkInvariants("after a candidate query")) return out;
            } else if (k == "writeread") {
                std::ostringstream os; bool bin = e.getb("binary"); g.write(os, bin);
                TasmanianSparseGrid r; std::istringstream is(os.str());
                try { r.read(is, bin); } catch (std::exception &ex) { out.fail("read-exception", base + "read-exception", ex.what()); return out; }
                g = std::move(r); st.inc("fault.checkpoint_restore_interleaved");
                if (!checkInvariants("after write/read of the half-built grid")) return out;
            } else if (k == "copysub") { // continue the construction on a copy that keeps an output sub-range (the way a driver splits a multi-output surrogate)
                if ((g.isSequence() || g.isLocalPolynomial() || g.isWavelet()) && outs >= 2) {
                    int lo = (int)(e.geti("lo", 1) % outs), hi = lo + 1 + (int)(e.geti("len", 0) % (outs - lo));
                    TasmanianSparseGrid c1; c1.copyGrid(g, lo, hi); g = std::move(c1);
                    TasmanianSparseGrid c2; c2.copyGrid(twin, lo, hi); twin = std::move(c2);
                    for (auto &kv : delivered) kv.second = std::vector<double>(kv.second.begin() + lo, kv.second.begin() + hi);
                    out_offset += lo; outs = hi - lo; st.inc("fault.copy_of_output_subrange_interleaved");
                    if (!checkInvariants("after copying an output sub-range of the half-built grid")) return out;
                }
            } else if (k == "begin") { // a driver that calls beginConstruction() defensively in every work cycle: no effect while construction is active
                g.beginConstruction(); st.inc("fault.redundant_beginConstruction");
                if (!checkInvariants("after a redundant beginConstruction()")) return out;
            } else if (k == "copy") {
                TasmanianSparseGrid c; c.copyGrid(g); g = std::move(c); st.inc("fault.copy_interleaved");
                if (!checkInvariants("after copying the half-built grid")) return out;
            }
        }
        std::string rest = p.gets("rest", "single");
        while (next < nsamples) if (!deliver(rest == "single" ? 1 : rest == "pairs" ? 2 : nsamples - next)) return out;

        // reference: the same data in one batch
        {
            std::vector<double> px, py;
            for (auto &x : samples) px.insert(px.end(), x.begin(), x.end());
            py = modelVals(px);
            if (!px.empty()) twin.loadConstructedPoints(px, py);
        }
        std::string path = usedSingle && !usedBatch ? "single" : usedBatch && !usedSingle ? "batch" : "mixed";
        if (thinned) path += "-sparse"; // sparse (not parent-closed) targets are their own signature class
        for (int phase = 0; phase < 2; phase++) {
            const char *when = phase == 0 ? "after the last delivery" : "after finishConstruction";
            if (thinned) { // the admissible part of a sparse target is defined by the one-batch twin
                if (g.getNumLoaded() != twin.getNumLoaded()) {
                    std::vector<double> a = g.getLoadedPoints(), b = twin.getLoadedPoints(); std::map<Key, int> sa, sb; std::string diff;
                    for (size_t i = 0; i + d <= a.size(); i += d) sa[Key{std::vector<double>(a.begin() + i, a.begin() + i + d)}] = 1;
                    for (size_t i = 0; i + d <= b.size(); i += d) sb[Key{std::vector<double>(b.begin() + i, b.begin() + i + d)}] = 1;
                    for (auto &kv : sa) if (!sb.count(kv.first)) diff += " +" + fmtPoint(kv.first.x.data(), d);
                    for (auto &kv : sb) if (!sa.count(kv.first)) diff += " -" + fmtPoint(kv.first.x.data(), d);
                    std::string all; for (auto &x : samples) all += fmtPoint(x.data(), d);
                    out.fail("missing-points", base + path + "/missing-points", std::string(when) + ": sparse target, " + std::to_string(g.getNumLoaded()) + " points are loaded, the twin loaded in one batch holds " + std::to_string(twin.getNumLoaded()) + " (" + std::to_string(delivered.size()) + " delivered); difference to the twin:" + diff.substr(0, 300) + "; delivery order " + all.substr(0, 600));
                    return out;
                }
                if (g.getNumLoaded() < (int)delivered.size()) st.inc("reach.sparse_target_left_parked_samples");
            } else
            if ((size_t)g.getNumLoaded() != total) {
                // which target point is missing?
                std::vector<double> lp = g.getLoadedPoints(); std::map<Key, int> ls;
                for (size_t i = 0; i + d <= lp.size(); i += d) ls[Key{std::vector<double>(lp.begin() + i, lp.begin() + i + d)}] = 1;
                std::string miss; for (auto &kv : tset) if (!ls.count(kv.first)) { miss = fmtPoint(kv.first.x.data(), d); break; }
                out.fail("missing-points", base + path + "/missing-points", std::string(when) + ": " + std::to_string(g.getNumLoaded()) + " of the " + std::to_string(total) + " target points are loaded (twin loaded in one batch: " + std::to_string(twin.getNumLoaded()) + "); first missing " + miss);
                return out;
            }
            if (!thinned && (size_t)twin.getNumLoaded() != total) { out.fail("missing-points", base + "batch-twin/missing-points", std::string(when) + ": the one-batch twin holds " + std::to_string(twin.getNumLoaded()) + " of " + std::to_string(total) + " target points"); return out; }
            if (!checkInvariants(when)) return out;
            // surrogate equals the twin's
            if (g.getNumLoaded() == 0) { out.trace.i(0); if (phase == 0) { g.finishConstruction(); twin.finishConstruction(); } continue; }
            std::vector<double> X = probePoints(g, 6), y1, y2;
            { std::vector<double> lp = g.getLoadedPoints(); size_t n = lp.size() / d; for (size_t k = 0; k < std::min<size_t>(n, 12); k++) { size_t i = (k * 7919u) % n; X.insert(X.end(), lp.begin() + i * d, lp.begin() + (i + 1) * d); } }
            g.evaluateBatch(X, y1); twin.evaluateBatch(X, y2);
            double scale = 1.0; for (double v : y2) if (std::isfinite(v)) scale = std::max(scale, std::fabs(v));
            for (size_t i = 0; i < y1.size(); i++) {
                double dv = std::fabs(y1[i] - y2[i]); st.maxi("surrogate_rel_deviation", dv / scale);
                if (!(dv <= 1e-9 * scale)) {
                    char b[240]; snprintf(b, sizeof b, "%s: surrogate at probe %zu is %.15g, the one-batch twin gives %.15g", when, i / outs, y1[i], y2[i]);
                    out.fail("surrogate-mismatch", base + path + "/surrogate-mismatch", b); return out;
                }
            }
            // order-independent comparison of the coefficients (points may be stored in a different order)
            {
                std::vector<double> p1 = g.getLoadedPoints(), p2 = twin.getLoadedPoints();
                const double *c1 = g.getHierarchicalCoefficients(), *c2 = twin.getHierarchicalCoefficients();
                size_t mult = g.isFourier() ? 2 : 1, n = (size_t)g.getNumLoaded();
                if (c1 && c2 && !g.isFourier()) {
                    std::map<Key, size_t> where; for (size_t i = 0; i < n; i++) where[Key{std::vector<double>(p2.begin() + i * d, p2.begin() + (i + 1) * d)}] = i;
                    double cs = 1.0; for (size_t i = 0; i < n * outs * mult; i++) if (std::isfinite(c2[i])) cs = std::max(cs, std::fabs(c2[i]));
                    for (size_t i = 0; i < n; i++) {
                        auto it = where.find(Key{std::vector<double>(p1.begin() + i * d, p1.begin() + (i + 1) * d)});
                        if (it == where.end()) { out.fail("missing-points", base + path + "/point-set-differs", std::string(when) + ": a loaded point is not in the twin"); return out; }
                        for (int o = 0; o < outs; o++) { double dv = std::fabs(c1[i * outs + o] - c2[it->second * outs + o]); if (!(dv <= 1e-9 * cs)) {
                            char b[240]; snprintf(b, sizeof b, "%s: hierarchical coefficient at %s is %.15g, the one-batch twin has %.15g", when, fmtPoint(&p1[i * d], d).c_str(), c1[i * outs + o], c2[it->second * outs + o]);
                            out.fail("surrogate-mismatch", base + path + "/coefficient-mismatch", b); return out; } }
                    }
                }
            }
            out.trace.vec(y1); out.trace.i(g.getNumLoaded());
            if (phase == 0) { g.finishConstruction(); twin.finishConstruction(); }
        }
        return out;
    }
};

} // namespace

int main(int argc, char **argv) { C09 e; return engine_main(argc, argv, e); }
