// Serial reference side of C13: the library compiled WITHOUT OpenMP and without instrumentation,
// namespaces renamed by the build (see Makefile, NSREN).
#define SIM_SECONDARY_TU 1
#include "engines/c13_common.hpp"
namespace c13ref {
std::vector<sim::FlatObs> run(const std::string &plan_json) { return tsgsim::runHistory(sim::Json::parse(plan_json)); }
}
