// C13 — the OpenMP build under a SIMULATED libgomp (sim/simrt_gomp.inc): team size, chunk hand-out
// of dynamic loops, order of critical sections and every interleaving of the team members (down to
// instrumented memory accesses) are decided by one seeded stream; libgomp never runs. The same
// scripted history is executed by the serial reference build (no OpenMP, other code in the
// #ifdef _OPENMP branches) linked into the same executable under renamed namespaces.
// Oracles: structural identity (points, orders, needed sets, refinement decisions, index arrays: exact),
// numerics to rounding, happens-before race detector inside every parallel region, no deadlock.
#include "sim/engine.hpp"
#include "sim/simrt.hpp"
#include "engines/c13_common.hpp"
#include <typeinfo>

using namespace sim;
using namespace tsgsim;

namespace simrt { void sim_fatal_notify() { sim::write_crash_line("sim-fatal"); } }
namespace c13ref { std::vector<sim::FlatObs> run(const std::string &plan_json); }

namespace {

class C13 : public Engine {
public:
    const char *property() const override { return "C13"; }

    Json generate(Rng rng, const std::string &tier) override {
        Rng w = rng.fork("workload"), s = rng.fork("schedule");
        Json p = Json::object();
        GenOpts go; go.min_outs = 0; go.max_outs = 2; go.max_depth = 4; go.max_points = tier == "thorough" ? 300 : 200; go.optimized_rules = w.chance(0.25); go.wavelet_max_dims = 2;
        Json mk = genMake(w, go);
        Json ops = Json::array();
        int nops = w.pick<int>({0, 1, 2, 2, 3, 4, 6});
        bool scenario = w.chance(0.15);
        if (scenario) {
            // local polynomial grid in 3 dimensions whose hierarchy becomes incomplete: load, adaptive refinement, load again
            // (the surplus algorithm is then chosen by a completeness flag that the team computes together)
            mk = Json::object(); mk["family"] = "localp"; mk["dims"] = 3; mk["outs"] = w.range(1, 2); mk["depth"] = w.range(1, 3);
            mk["rule"] = w.pick<std::string>({"localp", "semi-localp", "localp-zero", "localp-boundary"}); mk["order"] = w.pick<int>({1, 2, 3}); mk["limits"] = Json::array(); mk["max_points"] = 200;
            int rounds = w.range(1, 3);
            for (int k = 0; k <= rounds; k++) {
                Json l = Json::object(); l["op"] = "load"; l["variant"] = 0.0; ops.push(l);
                if (k == rounds) break;
                Json rf = Json::object(); rf["op"] = "refine"; rf["tol"] = w.pick<double>({1e-1, 1e-2, 1e-3}); rf["criteria"] = w.pick<std::string>({"classic", "classic", "direction", "fds", "parents"}); rf["output"] = -1;
                rf["type"] = "iptotal"; rf["min_growth"] = 1; rf["limits"] = Json::array(); rf["prefer_surplus"] = true; rf["scale"] = false; ops.push(rf);
            }
            nops = w.range(0, 2);
        }
        // curved selection with negative corrections (general, not provably lower, index sets), always under level limits
        if (!scenario && (mk.gets("family") == "global" || mk.gets("family") == "sequence") && w.chance(0.25)) {
            int dd = (int)mk.geti("dims"); mk["type"] = w.pick<std::string>({"curved", "ipcurved", "qpcurved"}); mk["aniso"] = genAnisoNegativeCurved(w, dd);
            Json lim = Json::array(); for (int k = 0; k < dd; k++) lim.push(Json(w.range(2, 4))); mk["limits"] = lim; mk["depth"] = w.range(1, 4);
        }
        p["make"] = mk;
        int d = (int)mk.geti("dims");
        if (!scenario && mk.geti("outs") > 0 && w.chance(0.8)) { Json o = Json::object(); o["op"] = "load"; o["variant"] = 0.0; ops.push(o); }
        for (int k = 0; k < nops; k++) ops.push(genOp(w, d, true));
        p["ops"] = ops;
        p["weights_first"] = w.chance(0.4);
        if (w.chance(0.15)) { Json sw = Json::object(); sw["dims"] = w.range(1, 4); sw["particles"] = w.range(1, 9); sw["iterations"] = w.range(1, 4); sw["seed"] = (long long)(w.next() >> 40);
                              sw["inertia"] = w.pick<double>({0.3, 0.5, 0.9}); sw["cognitive"] = 2.0; sw["social"] = w.pick<double>({1.0, 2.0}); p["swarm"] = sw; }
        Json sc = Json::object();
        sc["seed"] = (long long)(s.next() >> 12);
        sc["threads"] = s.pick<int>({1, 2, 2, 3, 3, 4, 4, 8});
        sc["chunk_order"] = s.chance(0.5) ? 1 : 0;
        sc["strategy"] = s.pick<int>({simrt::RANDOM_WALK, simrt::RANDOM_WALK, simrt::RANDOM_WALK, simrt::PCT, simrt::PCT, simrt::RUN_TO_BLOCK, simrt::ROUND_ROBIN, simrt::STARVE_ONE});
        sc["pct_depth"] = s.range(0, 3); sc["pct_events"] = s.pick<int>({50, 300, 2000});
        sc["starve"] = s.range(0, 3);
        sc["preempt_mean"] = s.pick<double>({0.0, 0.0, 500.0, 5000.0, 50000.0});
        sc["random_steps"] = 1 << 30;
        p["sched"] = sc;
        Json sh = Json::object();
        sh["lists"] = Json::from(std::vector<std::string>{"ops"});
        sh["ints"] = Json::from(std::vector<std::string>{"sched.random_steps", "make.depth", "make.outs", "make.dims", "sched.threads", "sched.strategy", "sched.chunk_order", "sched.pct_depth"});
        Json mn = Json::object(); mn["make.dims"] = 1; mn["sched.threads"] = 2; sh["min"] = mn; p["_shrink"] = sh;
        return p;
    }

    Outcome execute(const Json &p, Stats &st) override {
        Outcome out;
        const Json &sc = p.at("sched");
        // ---- serial reference build ------------------------------------------------------------------
        std::vector<FlatObs> ref;
        std::string pj = p.dump();
        try { ref = c13ref::run(pj); } catch (std::exception &e) { out.nontrivial = false; out.trace.s(e.what()); st.inc("note.reference_threw"); return out; }
        // ---- OpenMP build under the simulated libgomp -----------------------------------------------
        simrt::Config cfg;
        cfg.seed = (uint64_t)sc.geti("seed", 1); cfg.strategy = (int)sc.geti("strategy", simrt::RANDOM_WALK); cfg.pct_depth = (int)sc.geti("pct_depth", 1); cfg.pct_events = (uint64_t)sc.geti("pct_events", 300);
        cfg.starve = (int)sc.geti("starve", 1); cfg.preempt_mean = sc.getd("preempt_mean", 0); cfg.omp_threads = (int)std::max<int64_t>(1, sc.geti("threads", 2)); cfg.omp_chunk_order = (int)sc.geti("chunk_order", 0);
        cfg.step_cap = 20000000; if (sc.has("random_steps")) cfg.random_steps = (uint64_t)sc.geti("random_steps");
        char ctx[64]; snprintf(ctx, sizeof ctx, "run-index=%lld", (long long)g_current_index); simrt::set_fatal_context(ctx);
        std::vector<FlatObs> omp; std::string escaped;
        simrt::Result R = simrt::run(cfg, [&]() {
            try { omp = runHistory(p); } catch (std::exception &e) { simrt::Ignore ig; escaped = std::string(typeid(e).name()) + ": " + e.what(); }
        });
        st.inc("sim.sched_steps", (long)R.steps); st.inc("sim.context_switches", (long)R.switches); st.inc("sim.memory_events", (long)R.mem_events);
        st.inc("sim.parallel_regions", (long)R.regions); st.inc("sim.dynamic_chunks", (long)R.chunks); st.inc("sim.team_tasks", (long)R.tasks - 1);
        st.inc("fault.preemption_at_memory_access", (long)R.preemptions); st.inc("fault.team_size." + std::to_string(cfg.omp_threads)); st.inc(std::string("fault.strategy.") + std::to_string(cfg.strategy));
        if (cfg.omp_chunk_order) st.inc("fault.chunks_handed_out_in_seeded_order");
        st.maxi("max_regions_per_run", (double)R.regions);
        for (auto &q : R.omp_regions) st.inc("region." + q.first, q.second);
        st.distinct2.insert(R.sync_hash);
        out.trace.u64(R.trace_hash);
        Hash sh; sh.s(p.at("make").gets("family")); sh.s(p.at("make").gets("rule")); sh.i(p.at("make").geti("order")); sh.i(p.at("make").geti("dims")); sh.i(p.at("make").geti("depth"));
        for (auto &f : ref) { sh.s(f.op); }
        sh.i(cfg.omp_threads);
        out.shape = sh.h; out.nontrivial = R.regions > 0;
        for (auto &f : omp) for (auto &s : f.sec) { out.trace.s(s.name); out.trace.vec(s.v); out.trace.s(s.s); }
        Json ex = Json::object(); { Json a = Json::array(); for (auto &f : ref) a.push(Json(f.op)); ex["history"] = a; }
        ex["regions"] = (long long)R.regions; ex["threads"] = cfg.omp_threads;

        // ---- oracles ---------------------------------------------------------------------------------------
        if (!R.races.empty()) {
            auto &r = R.races[0];
            std::string a = r.fnA, b = r.fnB; if (b < a) std::swap(a, b);
            Json arr = Json::array();
            for (auto &q : R.races) { Json o = Json::object(); o["kind"] = q.kind; o["a"] = q.fnA; o["b"] = q.fnB; o["where"] = q.where; Json stv = Json::array(); for (auto &f : q.stackB) stv.push(Json(f)); o["stack"] = stv; arr.push(o); }
            ex["reports"] = arr; out.extra = ex;
            out.fail(r.kind, "C13/" + r.kind + "/" + a + "~" + b, r.kind + std::string(" inside a parallel region (team of ") + std::to_string(cfg.omp_threads) + "): " + r.where);
            return out;
        }
        if (!escaped.empty()) { out.extra = ex; out.fail("exception", "C13/exception/" + escaped.substr(0, escaped.find(':')), "the OpenMP build threw where the serial build did not: " + escaped); return out; }
        if (omp.size() != ref.size()) { out.extra = ex; out.fail("structure", "C13/structure/history-length", "the OpenMP build completed " + std::to_string(omp.size()) + " steps, the serial build " + std::to_string(ref.size())); return out; }
        for (size_t k = 0; k < ref.size(); k++) {
            const FlatObs &a = ref[k], &b = omp[k];
            if (a.op != b.op) { out.extra = ex; out.fail("structure", "C13/structure/operation-outcome", "step " + std::to_string(k) + ": serial build '" + a.op.substr(0, 160) + "', OpenMP build '" + b.op.substr(0, 160) + "'"); return out; }
            if (a.sec.size() != b.sec.size()) { out.extra = ex; out.fail("structure", "C13/structure/sections", "step " + std::to_string(k) + " (" + a.op.substr(0, 60) + "): different sets of observables"); return out; }
            for (size_t j = 0; j < a.sec.size(); j++) {
                const FlatSection &x = a.sec[j], &y = b.sec[j];
                std::string where = "step " + std::to_string(k) + " (" + a.op.substr(0, 60) + "), " + x.name;
                if (x.name != y.name || x.s != y.s) { out.extra = ex; out.fail("structure", "C13/structure/" + x.name, where + ": '" + x.s.substr(0, 100) + "' vs '" + y.s.substr(0, 100) + "'"); return out; }
                if (x.v.size() != y.v.size()) { out.extra = ex; out.fail("structure", "C13/structure/" + x.name, where + ": " + std::to_string(x.v.size()) + " entries in the serial build, " + std::to_string(y.v.size()) + " in the OpenMP build"); return out; }
                bool bits = x.v.empty() || memcmp(x.v.data(), y.v.data(), x.v.size() * 8) == 0;
                if (bits) continue;
                if (x.kind == 0) { // stored data and index arrays: exact
                    size_t i = 0; while (i < x.v.size() && memcmp(&x.v[i], &y.v[i], 8) == 0) i++;
                    char bf[160]; snprintf(bf, sizeof bf, ": entry %zu is %.17g in the serial build and %.17g in the OpenMP build", i, x.v[i], y.v[i]);
                    out.extra = ex; out.fail("structure", "C13/structure/" + x.name, where + bf); return out;
                }
                st.inc("note.numeric_section_not_bit_identical");
                double scale = 1.0; for (double v : x.v) if (std::isfinite(v)) scale = std::max(scale, std::fabs(v));
                for (size_t i = 0; i < x.v.size(); i++) {
                    double dv = std::fabs(x.v[i] - y.v[i]);
                    if (std::isnan(x.v[i]) && std::isnan(y.v[i])) continue;
                    st.maxi("numeric_rel_deviation", dv / scale);
                    if (!(dv <= 1e-11 * scale)) {
                        char bf[200]; snprintf(bf, sizeof bf, ": entry %zu is %.15g in the serial build and %.15g in the OpenMP build (team of %d)", i, x.v[i], y.v[i], cfg.omp_threads);
                        out.extra = ex; out.fail("numeric", "C13/numeric/" + x.name, where + bf); return out;
                    }
                }
            }
        }
        return out;
    }
};

} // namespace

int main(int argc, char **argv) { C13 e; return engine_main(argc, argv, e); }
