// C06 — persistence simulation, fault-free / benign-fault configuration: a seeded grid history,
// then write() and read() through a simulated medium (chunked streams; simulated file system
// with short reads/writes and EINTR), compared with the original observationally and followed
// by a seeded continuation of the history on both the original and the restored grid.
#include "sim/engine.hpp"
#include "sim/tsg_common.hpp"
#include "sim/simfs.hpp"
#include <fstream>
#include <streambuf>

using namespace sim;
using namespace tsgsim;

namespace {

// A medium that delivers and accepts bytes in seeded small chunks.
class ChunkBuf : public std::streambuf {
public:
    std::vector<char> data; size_t rpos = 0; Rng rng; int maxchunk; Stats *st;
    std::vector<char> gbuf, pbuf;
    ChunkBuf(uint64_t seed, int mc, Stats *s) : rng(seed), maxchunk(std::max(1, mc)), st(s) {}
    void startRead() { rpos = 0; setg(nullptr, nullptr, nullptr); }
protected:
    int_type underflow() override {
        if (rpos >= data.size()) return traits_type::eof();
        size_t k = 1 + (size_t)rng.below((uint64_t)maxchunk);
        k = std::min(k, data.size() - rpos);
        gbuf.assign(data.begin() + rpos, data.begin() + rpos + k); rpos += k;
        setg(gbuf.data(), gbuf.data(), gbuf.data() + k);
        if (st) st->inc("fault.chunked_delivery");
        return traits_type::to_int_type(gbuf[0]);
    }
    int_type overflow(int_type c) override { if (c != traits_type::eof()) data.push_back((char)c); return c; }
    std::streamsize xsputn(const char *s, std::streamsize n) override {
        // accept the bytes in seeded pieces (legal for a streambuf; callers see the full count)
        std::streamsize done = 0;
        while (done < n) { std::streamsize k = 1 + (std::streamsize)rng.below((uint64_t)maxchunk); k = std::min(k, n - done); data.insert(data.end(), s + done, s + done + k); done += k; }
        return n;
    }
};

std::string plainWrite(const TasmanianSparseGrid &g, bool binary) { std::ostringstream os; g.write(os, binary); return os.str(); }

class C06 : public Engine {
public:
    const char *property() const override { return "C06"; }

    Json generate(Rng rng, const std::string &tier) override {
        Rng w = rng.fork("workload"), f = rng.fork("faults");
        Json p = Json::object();
        GenOpts go; if (tier == "thorough") { go.max_points = 500; }
        p["make"] = genMake(w, go);
        int d = (int)p["make"].geti("dims");
        Json ops = Json::array(); int n = w.range(0, 8); for (int k = 0; k < n; k++) ops.push(genOp(w, d));
        p["ops"] = ops;
        Json cont = Json::array(); n = w.range(1, 4); for (int k = 0; k < n; k++) cont.push(genOp(w, d));
        p["cont"] = cont;
        p["format"] = w.chance(0.5) ? "binary" : "ascii";
        p["entry"] = w.chance(0.5) ? "stream" : "file";
        Json io = Json::object();
        io["seed"] = (long long)(f.next() >> 2);
        io["chunk"] = f.pick<int>({1, 3, 7, 64, 4096});
        io["p_short_read"] = f.pick<double>({0.0, 0.2, 0.6}); io["p_short_write"] = f.pick<double>({0.0, 0.2, 0.6}); io["p_eintr"] = f.pick<double>({0.0, 0.1, 0.3});
        p["io"] = io;
        Json sh = Json::object(); sh["lists"] = Json::from(std::vector<std::string>{"ops", "cont"}); sh["ints"] = Json::from(std::vector<std::string>{"make.depth", "make.outs", "make.dims"});
        Json mn = Json::object(); mn["make.dims"] = 1; sh["min"] = mn; p["_shrink"] = sh;
        return p;
    }

    // write g and read it back into r through the simulated medium
    std::string roundTrip(const TasmanianSparseGrid &g, TasmanianSparseGrid &r, bool binary, bool file, const Json &io, Stats &st, std::string &bytes) {
        uint64_t seed = (uint64_t)io.geti("seed", 1);
        if (file) {
            simfs::FS &F = simfs::fs(); F.reset(); F.st = &st; F.rng = Rng(seed);
            F.p_short_read = io.getd("p_short_read", 0); F.p_short_write = io.getd("p_short_write", 0); F.p_eintr = io.getd("p_eintr", 0);
            g.write("/simfs/grid.tsg", binary);
            auto &b = F.files["/simfs/grid.tsg"]; bytes.assign(b.begin(), b.end());
            st.inc("io.file_bytes", (long)bytes.size());
            try { r.read("/simfs/grid.tsg"); } catch (std::exception &e) { return std::string("read-exception:") + e.what(); }
            if (!F.fds.empty()) return "descriptor-leak:file left open after read()";
        } else {
            ChunkBuf cb(seed, (int)io.geti("chunk", 7), &st);
            { std::ostream os(&cb); g.write(os, binary); os.flush(); }
            bytes.assign(cb.data.begin(), cb.data.end());
            st.inc("io.stream_bytes", (long)bytes.size());
            cb.startRead();
            std::istream is(&cb);
            try { r.read(is, binary); } catch (std::exception &e) { return std::string("read-exception:") + e.what(); }
        }
        return "";
    }

    Outcome execute(const Json &p, Stats &st) override {
        Outcome out;
        TasmanianSparseGrid g;
        doMake(g, p.at("make"));
        if (p.has("ops")) for (auto const &o : p.at("ops").a) { std::string s = applyOp(g, o, &st); st.inc("op." + o.gets("op") + "." + s.substr(0, s.find(':'))); }
        bool binary = p.gets("format", "binary") == "binary", file = p.gets("entry", "stream") == "file";
        std::string fam = familyName(g), cls = stateClass(g);
        std::string base = std::string("C06/") + (binary ? "binary" : "ascii") + "/" + (file ? "file" : "stream") + "/" + fam + "/" + cls + "/";
        out.shape = shapeKey(g) ^ mix64((binary ? 1 : 0) + (file ? 2 : 0));
        st.inc("state." + cls); st.inc("family." + fam);
        if (g.isUsingConstruction()) st.inc("reach.written_during_construction");
        if (g.getNumNeeded() > 0 && g.getNumLoaded() > 0) st.inc("reach.written_with_pending_refinement");
        if (g.getNumOutputs() == 0) st.inc("reach.zero_outputs");
        const Json &io = p.at("io");
        ObsOpts oo;
        Obs A = observe(g, oo);
        TasmanianSparseGrid r; std::string bytes;
        std::string e = roundTrip(g, r, binary, file, io, st, bytes);
        if (!e.empty()) { std::string k = e.substr(0, e.find(':')); out.fail(k, base + k, e); return out; }
        Obs B = observe(r, oo);
        std::string sec; double dev = 0;
        std::string df = diffObs(A, B, 1e-11, &sec, &dev);
        st.maxi("roundtrip_rel_deviation", dev);
        if (!df.empty()) { out.fail("observable", base + sec, "restored grid differs: " + df); return out; }
        // writing the restored grid reproduces the original bytes (same format)
        std::string again = plainWrite(r, binary);
        if (again != bytes) {
            size_t k = 0; while (k < again.size() && k < bytes.size() && again[k] == bytes[k]) k++;
            out.fail("rewrite-bytes", base + "rewrite-bytes", "write(read(write(S))) differs from write(S) at byte " + std::to_string(k) + " (sizes " + std::to_string(bytes.size()) + " / " + std::to_string(again.size()) + ")");
            return out;
        }
        // the other format's round trip agrees
        {
            TasmanianSparseGrid r2; std::string other = plainWrite(g, !binary);
            std::istringstream is(other);
            try { r2.read(is, !binary); } catch (std::exception &ex) { out.fail("read-exception", base + "other-format-read-exception", ex.what()); return out; }
            Obs C = observe(r2, oo);
            df = diffObs(B, C, 1e-11, &sec, &dev);
            if (!df.empty()) { out.fail("format-disagree", base + "format-disagree:" + sec, "binary and ASCII round trips disagree: " + df); return out; }
        }
        out.trace.s(bytes); out.trace.u64(A.hash());
        // every subsequent operation behaves as on the original
        if (p.has("cont")) {
            int step = 0;
            for (auto const &o : p.at("cont").a) {
                std::string s1 = applyOp(g, o), s2 = applyOp(r, o);
                st.inc("cont." + o.gets("op") + "." + s1.substr(0, s1.find(':')));
                if (s1 != s2) { out.fail("continuation", base + "continuation-status:" + o.gets("op"), "operation " + o.gets("op") + " on the original: " + s1 + "; on the restored grid: " + s2); return out; }
                Obs X = observe(g, oo), Y = observe(r, oo);
                df = diffObs(X, Y, 1e-11, &sec, &dev);
                if (!df.empty()) { out.fail("continuation", base + "continuation:" + o.gets("op") + ":" + sec, "after continuation step " + std::to_string(step) + " (" + o.gets("op") + "): " + df); return out; }
                out.trace.u64(X.hash());
                step++;
            }
        }
        return out;
    }
};

} // namespace

int main(int argc, char **argv) { C06 e; return engine_main(argc, argv, e); }
