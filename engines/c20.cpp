// C20 — ParticleSwarm under a simulated environment (envsim): the simulator plays the random
// stream (with injected endpoint draws), the objective, the domain test and a plan of
// calls interleaved with state edits; every objective / domain call is logged and the
// documented book-keeping is checked over the log after every call.
#include "sim/engine.hpp"
#include "TasmanianOptimization.hpp"
#include <cmath>

using namespace sim;
using TasOptimization::ParticleSwarmState;

namespace {

bool sameBits(double a, double b) { return memcmp(&a, &b, 8) == 0; }
bool samePt(const double *a, const double *b, size_t d) { return memcmp(a, b, d * sizeof(double)) == 0; }
bool sameVec(const std::vector<double> &a, const std::vector<double> &b) { return a.size() == b.size() && (a.empty() || memcmp(a.data(), b.data(), a.size() * 8) == 0); }

struct Visit { std::vector<double> x; double f; int src = 0; }; // src: 0 position, 1 re-evaluated best, 2 re-evaluated placeholder best (particle never inside before)

struct Env {
    size_t np = 1, d = 1;
    std::string objkind, domkind;
    std::vector<double> center, domc;
    double domr = 1.0, scale = 1.0;
    Rng draws{0};
    std::vector<std::pair<long, double>> inject;
    long ndraw = 0;
    Stats *st = nullptr;
    // log of the current call
    std::vector<std::pair<std::vector<double>, bool>> insidelog; // every domain test in order
    size_t inside_consumed = 0;   // inside-log entries already matched to an objective call
    std::vector<Visit> evals;     // in-domain evaluations in order, with the index of the domain test they answer
    std::vector<size_t> eval_slot;
    std::string violation;        // first environment-level violation (outside evaluation)

    double gen() {
        double v = draws.uniform();
        long nth = ndraw++;
        for (auto &p : inject) if (p.first == nth) { v = p.second; if (st) st->inc(v == 0.0 ? "fault.endpoint_0" : "fault.endpoint_1"); }
        return v;
    }
    bool dom(const double *x) const {
        if (domkind == "all") return true;
        if (domkind == "none") return false;
        if (domkind == "box") { for (size_t k = 0; k < d; k++) if (x[k] < -domr || x[k] > domr) return false; return true; }
        if (domkind == "ball") { double r2 = 0; for (size_t k = 0; k < d; k++) r2 += (x[k] - domc[k]) * (x[k] - domc[k]); return r2 <= domr * domr; }
        if (domkind == "halfspace") { double s = 0; for (size_t k = 0; k < d; k++) s += x[k]; return s >= domc[0]; }
        if (domkind == "shell") { double r2 = 0; for (size_t k = 0; k < d; k++) r2 += x[k] * x[k]; return r2 >= domr * domr; } // excludes a ball around the origin
        return true;
    }
    double obj(const double *x) const {
        double r2 = 0, s = 0, c = 0;
        for (size_t k = 0; k < d; k++) { double t = x[k] - center[k]; r2 += t * t; s += x[k]; c += std::cos(3.0 * t); }
        if (objkind == "sphere") return r2;
        if (objkind == "multimodal") return r2 - 0.5 * c;
        if (objkind == "plateau") return std::floor(scale * r2);      // many ties
        if (objkind == "linear") return s;
        if (objkind == "const") return 1.0;                           // all ties
        if (objkind == "negsphere") return -r2;                       // minimum on the boundary
        return r2;
    }
    bool inside(const std::vector<double> &x) {
        bool r = x.size() == d && dom(x.data());
        insidelog.push_back({x, r});
        return r;
    }
    // re-entrancy: the objective itself runs an independent inner swarm (bi-level optimisation) every n-th call
    int nested_every = 0;
    static void innerSwarm() {
        TasOptimization::ParticleSwarmState inner(2, 3);
        inner.setParticlePositions(std::vector<double>{0.1, 0.2, -0.3, 0.4, 0.5, -0.6}); inner.setParticleVelocities(std::vector<double>{0.05, -0.05, 0.02, 0.01, -0.03, 0.04});
        uint64_t z = 12345;
        auto rnd = [&z]() -> double { z = z * 6364136223846793005ULL + 1442695040888963407ULL; return (double)(z >> 11) * (1.0 / 9007199254740992.0); };
        auto obj = [](const std::vector<double> &x, std::vector<double> &y) { for (size_t i = 0; i < y.size(); i++) y[i] = x[2 * i] * x[2 * i] + x[2 * i + 1] * x[2 * i + 1]; };
        auto dom = [](const std::vector<double> &x) -> bool { return std::fabs(x[0]) <= 0.45 && std::fabs(x[1]) <= 0.45; }; // some inner particles are outside: the batches differ in size from the outer ones
        TasOptimization::ParticleSwarm(obj, dom, 0.5, 1.0, 1.0, 2, inner, rnd);
    }
    long throw_at = -1, fcalls = 0; bool thrown = false; // fault: the objective fails (as the C/Python wrappers do on a callback error) at the n-th call
    void f(const std::vector<double> &xb, std::vector<double> &fv) {
        if (nested_every > 0 && fcalls % nested_every == 0) { innerSwarm(); if (st) st->inc("fault.objective_runs_an_inner_swarm"); }
        if (fcalls++ == throw_at) { thrown = true; if (st) st->inc("fault.objective_throws"); throw std::runtime_error("simulated failure of the objective callback"); }
        // the batch must be exactly the points the domain test accepted since the previous objective call
        std::vector<double> expect; std::vector<size_t> slots;
        for (size_t k = inside_consumed; k < insidelog.size(); k++) if (insidelog[k].second) { expect.insert(expect.end(), insidelog[k].first.begin(), insidelog[k].first.end()); slots.push_back(k); }
        inside_consumed = insidelog.size();
        size_t m = xb.size() / d;
        for (size_t k = 0; k < m; k++) {
            bool ok = dom(&xb[k * d]);
            if (!ok && violation.empty()) violation = "outside-eval|the objective was called with a point outside the domain";
        }
        if (violation.empty() && !sameVec(xb, expect)) violation = "outside-eval|the objective was called with points that were not (all) accepted by the domain test just before";
        for (size_t k = 0; k < m && k < fv.size(); k++) {
            fv[k] = obj(&xb[k * d]);
            evals.push_back({std::vector<double>(xb.begin() + k * d, xb.begin() + (k + 1) * d), fv[k]});
            eval_slot.push_back(k < slots.size() ? slots[k] : (size_t)-1);
        }
    }
    void resetLogs() { insidelog.clear(); inside_consumed = 0; evals.clear(); eval_slot.clear(); fcalls = 0; thrown = false; throw_at = -1; }
};

struct Swarm {
    Env env;
    std::unique_ptr<ParticleSwarmState> s;
    double iw = 0.5, cc = 1, sc = 1;
    // reference book-keeping
    std::vector<std::vector<Visit>> visited; // per particle (+ swarm strip at index np)
    std::vector<Visit> cur;                  // last evaluated current position per particle (f = NaN if not inside / unknown)
    std::vector<char> cur_inside;
    bool cur_valid = false;
    bool cur_unevaluated = false;            // the cached current positions were never evaluated (the objective failed for that batch)
    bool bests_manual = false;               // the user supplied every best strip (setBestParticlePositions)

    void call(int iters) {
        auto f = [this](const std::vector<double> &x, std::vector<double> &y) { env.f(x, y); };
        auto ins = [this](const std::vector<double> &x) -> bool { return env.inside(x); };
        auto gen = [this]() -> double { return env.gen(); };
        try { TasOptimization::ParticleSwarm(f, ins, iw, cc, sc, iters, *s, gen); }
        catch (std::runtime_error &) { if (!env.thrown) throw; } // the caller catches the failure of its own callback and carries on with the same state
    }
};

class C20 : public Engine {
public:
    const char *property() const override { return "C20"; }

    Json generate(Rng rng, const std::string &) override {
        Rng w = rng.fork("workload"), f = rng.fork("faults");
        Json p = Json::object();
        int np = w.range(1, 8), d = w.range(1, 4);
        p["particles"] = np; p["dims"] = d;
        p["objective"] = w.pick<std::string>({"sphere", "sphere", "multimodal", "plateau", "linear", "const", "negsphere"});
        p["scale"] = w.pick<double>({1.0, 3.0, 10.0});
        Json c = Json::array(); for (int k = 0; k < 4; k++) c.push(Json(w.uniform(-0.8, 0.8))); p["center"] = c;
        p["domain"] = w.pick<std::string>({"box", "box", "ball", "ball", "halfspace", "shell", "all", "none"});
        Json dc = Json::array(); for (int k = 0; k < 4; k++) dc.push(Json(w.uniform(-1.0, 1.0))); p["domc"] = dc;
        p["domr"] = w.pick<double>({0.3, 0.6, 1.0, 1.5});
        p["inertia"] = w.pick<double>({0.0, 0.5, 0.9, 1.2});
        p["cognitive"] = w.pick<double>({0.0, 1.0, 2.0});
        p["social"] = w.pick<double>({0.0, 1.0, 2.0});
        p["init"] = w.chance(0.5) ? "box" : "manual";
        Json pos = Json::array(), vel = Json::array();
        for (int k = 0; k < 32; k++) { pos.push(Json(w.uniform(-1.5, 1.5))); vel.push(Json(w.chance(0.2) ? 0.0 : w.uniform(-0.5, 0.5))); }
        p["pos"] = pos; p["vel"] = vel;
        p["draw_seed"] = (long long)(w.next() >> 1);
        p["nested_every"] = w.chance(0.1) ? w.range(1, 3) : 0;
        Json ops = Json::array();
        int ncalls = w.range(1, 4);
        for (int k = 0; k < ncalls; k++) {
            Json o = Json::object();
            o["iters"] = w.range(0, 6);
            o["edit"] = k + 1 < ncalls ? w.pick<std::string>({"none", "none", "clearCache", "clearBest", "clearBest", "clearBest+clearCache", "setPositions+clearCache", "setBest+clearCache", "setVelocities", "setPositions", "setBest"}) : std::string("none");
            o["edit_seed"] = (long long)(w.next() >> 1);
            o["throw_at"] = w.chance(0.08) ? w.range(0, 4) : -1; // the objective fails at its n-th call inside this ParticleSwarm() call
            ops.push(o);
        }
        p["ops"] = ops;
        Json inj = Json::array();
        int nf = f.chance(0.4) ? 0 : f.range(1, 3);
        for (int k = 0; k < nf; k++) { Json e = Json::object(); e["nth"] = f.range(0, 40); e["value"] = f.chance(0.5) ? 1.0 : 0.0; inj.push(e); }
        p["inject"] = inj;
        Json sh = Json::object();
        sh["lists"] = Json::from(std::vector<std::string>{"inject", "ops"});
        sh["ints"] = Json::from(std::vector<std::string>{"particles", "dims"});
        Json mn = Json::object(); mn["particles"] = 1; mn["dims"] = 1; sh["min"] = mn;
        p["_shrink"] = sh;
        return p;
    }

    void setup(Swarm &S, const Json &p, Stats &st) {
        Env &e = S.env;
        e.np = (size_t)std::max<int64_t>(1, p.geti("particles", 1)); e.d = (size_t)std::max<int64_t>(1, p.geti("dims", 1));
        e.objkind = p.gets("objective", "sphere"); e.domkind = p.gets("domain", "box");
        e.center = p.has("center") ? p.at("center").dvec() : std::vector<double>(); e.center.resize(4, 0.0);
        e.domc = p.has("domc") ? p.at("domc").dvec() : std::vector<double>(); e.domc.resize(4, 0.0);
        e.domr = p.getd("domr", 1.0); e.scale = p.getd("scale", 1.0);
        e.draws = Rng((uint64_t)p.geti("draw_seed", 1));
        e.nested_every = (int)p.geti("nested_every", 0);
        e.st = &st;
        if (p.has("inject")) for (auto const &x : p.at("inject").a) e.inject.push_back({(long)x.geti("nth"), x.getd("value")});
        S.iw = p.getd("inertia", 0.5); S.cc = p.getd("cognitive", 1.0); S.sc = p.getd("social", 1.0);
        S.s.reset(new ParticleSwarmState((int)e.d, (int)e.np));
        std::vector<double> pos = p.has("pos") ? p.at("pos").dvec() : std::vector<double>(), vel = p.has("vel") ? p.at("vel").dvec() : std::vector<double>();
        pos.resize(e.np * e.d, 0.25); vel.resize(e.np * e.d, 0.1);
        if (p.gets("init") == "box") {
            std::vector<double> lo(e.d, -1.2), hi(e.d, 1.2);
            S.s->initializeParticlesInsideBox(lo, hi, [&S]() { return S.env.gen(); });
        } else {
            S.s->setParticlePositions(pos); S.s->setParticleVelocities(vel);
        }
        S.visited.assign(e.np + 1, {});
        S.cur.assign(e.np, Visit()); S.cur_inside.assign(e.np, 0); S.cur_valid = false;
    }

    // book-keeping after one ParticleSwarm call; returns violation "class|detail" or ""
    std::string account(Swarm &S, bool cacheInitBefore, bool bestInitBefore, int iters, const std::string &lastEdit, Stats &st) {
        Env &e = S.env; size_t np = e.np, d = e.d;
        if (!e.violation.empty()) return e.violation;
        // expected batches of domain tests: [positions, (bests)] if the cache was not initialised, then one per iteration
        std::vector<std::pair<size_t, int>> batches; // (size, kind: 0 positions, 1 bests)
        if (!cacheInitBefore) { batches.push_back({np, 0}); if (bestInitBefore) batches.push_back({np + 1, 1}); }
        for (int k = 0; k < std::max(iters, 0); k++) batches.push_back({np, 0});
        if (e.thrown) { // the call was cut short by the failing objective: keep the batches whose domain tests happened, the last one has no values
            size_t a = 0, nb = 0; while (nb < batches.size() && a < e.insidelog.size()) { a += batches[nb].first; nb++; }
            batches.resize(nb);
            st.inc("reach.call_interrupted_by_failing_objective");
        }
        size_t expectTests = 0; for (auto &b : batches) expectTests += b.first;
        if (e.insidelog.size() != expectTests) {
            char b[160]; snprintf(b, sizeof b, "%zu domain tests in the call, the documented algorithm needs %zu", e.insidelog.size(), expectTests);
            return std::string("protocol|") + b;
        }
        std::vector<char> emptyBefore(np + 1); for (size_t i = 0; i <= np; i++) emptyBefore[i] = S.visited[i].empty();
        // map each in-domain evaluation to (batch, slot)
        std::vector<size_t> start; { size_t a = 0; for (auto &b : batches) { start.push_back(a); a += b.first; } }
        // a call cut short during the cache set-up never reached update(): its evaluations are repeated by the next call and do not count yet
        size_t ninit = cacheInitBefore ? 0 : (bestInitBefore ? 2 : 1);
        bool discard = e.thrown && batches.size() <= ninit;
        if (discard) st.inc("reach.interrupted_during_cache_setup");
        for (size_t k = 0; k < e.evals.size() && !discard; k++) {
            size_t pos = e.eval_slot[k];
            if (pos == (size_t)-1) return "outside-eval|objective batch larger than the set of accepted points";
            size_t bi = 0; while (bi + 1 < batches.size() && start[bi + 1] <= pos) bi++;
            size_t slot = pos - start[bi];
            if (batches[bi].second == 0) { S.visited[slot].push_back(e.evals[k]); S.visited[np].push_back(e.evals[k]); }
            else {
                Visit v = e.evals[k]; v.src = (emptyBefore[slot] && !S.bests_manual) ? 2 : 1;
                if (v.src == 2) st.inc("reach.placeholder_best_reevaluated");
                S.visited[slot].push_back(v); if (slot < np) S.visited[np].push_back(v); st.inc("reach.best_reevaluated");
            }
        }
        if (!discard) for (auto &b : batches) if (b.second == 1) S.bests_manual = false;
        if (discard) return ""; // nothing else changed: bests, positions and the record are as before the call
        // current cached positions = last positions batch
        int lastPosBatch = -1; for (size_t bi = 0; bi < batches.size(); bi++) if (batches[bi].second == 0) lastPosBatch = (int)bi;
        if (lastPosBatch >= 0) {
            for (size_t i = 0; i < np; i++) {
                auto &il = e.insidelog[start[lastPosBatch] + i];
                S.cur[i].x = il.first; S.cur_inside[i] = il.second; S.cur[i].f = il.second ? e.obj(il.first.data()) : 0.0;
            }
            S.cur_valid = true;
            // interrupted in a positions batch: those positions were tested but the objective never returned for them
            S.cur_unevaluated = e.thrown && (size_t)lastPosBatch + 1 == batches.size();
        }
        // the positions the state reports must be the last ones tested (nothing evaluated that the state does not hold)
        std::vector<double> P = S.s->getParticlePositions();
        if (S.cur_valid) for (size_t i = 0; i < np; i++) if (!samePt(&P[i * d], S.cur[i].x.data(), d) && lastPosBatch >= 0) return "protocol|the last tested positions are not the positions held by the state";
        // bests
        std::vector<double> B = S.s->getBestParticlePositions();
        std::vector<double> sb = S.s->getBestPosition();
        if (B.size() != (np + 1) * d || !samePt(sb.data(), &B[np * d], d)) return "protocol|getBestPosition differs from the last strip of getBestParticlePositions";
        for (size_t i = 0; i <= np; i++) {
            auto &V = S.visited[i];
            if (V.empty()) { st.inc(i == np ? "reach.swarm_never_inside" : "reach.particle_never_inside"); continue; }
            double mn = V[0].f; for (auto &v : V) if (v.f < mn) mn = v.f;
            bool member = false, isMin = false;
            for (auto &v : V) if (samePt(v.x.data(), &B[i * d], d)) { member = true; if (v.f == mn) isMin = true; }
            std::string who = i == np ? "swarm" : "particle";
            if (!member) {
                char b[200]; snprintf(b, sizeof b, "%s best position%s was never visited inside the domain (%zu in-domain evaluations on record)", who.c_str(), i == np ? "" : (" of particle " + std::to_string(i)).c_str(), V.size());
                return "best-not-visited/" + who + "/after-" + lastEdit + "|" + b;
            }
            if (!isMin) {
                char b[200]; snprintf(b, sizeof b, "%s best has objective %.17g but an in-domain evaluation with %.17g is on record", who.c_str(), e.obj(&B[i * d]), mn);
                // taint: in this history the zero placeholder best of a never-inside particle was evaluated as if it were a real best
                bool tainted = false; for (auto &v : S.visited[np]) if (v.src == 2) tainted = true;
                return "best-not-min/" + who + (tainted ? "/placeholder-best-reevaluated" : "") + "/after-" + lastEdit + "|" + b + (tainted ? "; earlier in this history the placeholder best of a particle that had never been inside was evaluated when the cache was rebuilt" : "");
            }
        }
        return "";
    }

    // the three documented overloads of the position setters (const reference, rvalue, raw array)
    static void setPositions(ParticleSwarmState &s, std::vector<double> pos, uint64_t which) {
        if (which % 3 == 0) s.setParticlePositions(pos); else if (which % 3 == 1) s.setParticlePositions(std::move(pos)); else s.setParticlePositions(pos.data());
    }
    static void setBests(ParticleSwarmState &s, std::vector<double> b, uint64_t which) {
        if (which % 3 == 0) s.setBestParticlePositions(b); else if (which % 3 == 1) s.setBestParticlePositions(std::move(b)); else s.setBestParticlePositions(b.data());
    }
    void applyEdit(Swarm &S, const std::string &edit, uint64_t seed, Stats &st) {
        Env &e = S.env; size_t np = e.np, d = e.d;
        Rng r(seed);
        st.inc("edit." + edit);
        auto clearBestModel = [&](bool cacheKept) {
            S.bests_manual = false; // the user's strips are gone
            for (auto &v : S.visited) v.clear();
            if (cacheKept && S.cur_valid && !S.cur_unevaluated) for (size_t i = 0; i < np; i++) if (S.cur_inside[i]) { S.visited[i].push_back(S.cur[i]); S.visited[np].push_back(S.cur[i]); }
        };
        if (edit == "clearCache") { S.s->clearCache(); }
        else if (edit == "clearBest") { S.s->clearBestParticles(); clearBestModel(S.s->isCacheInitialized()); }
        else if (edit == "clearBest+clearCache") { S.s->clearBestParticles(); S.s->clearCache(); clearBestModel(false); }
        else if (edit == "setPositions+clearCache") {
            std::vector<double> pos(np * d); for (auto &v : pos) v = r.uniform(-1.5, 1.5);
            setPositions(*S.s, pos, seed >> 7); S.s->clearCache();
        } else if (edit == "setPositions") { // same objective, so the documentation does not ask for clearCache()
            std::vector<double> pos(np * d); for (auto &v : pos) v = r.uniform(-1.5, 1.5);
            setPositions(*S.s, pos, seed >> 7);
        } else if (edit == "setBest+clearCache" || edit == "setBest") {
            std::vector<double> b(( np + 1) * d); for (auto &v : b) v = r.uniform(-1.5, 1.5);
            // keep the manual input self-consistent: the swarm strip is the best in-domain personal best (if any)
            { int arg = -1; double mn = 0; for (size_t i = 0; i < np; i++) if (e.dom(&b[i * d])) { double f = e.obj(&b[i * d]); if (arg < 0 || f < mn) { arg = (int)i; mn = f; } }
              if (arg >= 0) std::copy_n(b.begin() + arg * d, d, b.begin() + np * d); }
            setBests(*S.s, b, seed >> 9); if (edit == "setBest+clearCache") S.s->clearCache();
            S.bests_manual = true;
            for (auto &v : S.visited) v.clear(); // the user replaced every best: the record restarts from what gets evaluated
        } else if (edit == "setVelocities") {
            std::vector<double> v(np * d); for (auto &x : v) x = r.uniform(-0.5, 0.5);
            S.s->setParticleVelocities(v);
        }
    }

    // runs the op list; if merge is true, consecutive calls separated by edit "none" are merged into one call
    bool runOps(const Json &p, bool merge, bool check, Stats &st, Outcome &out, Swarm &S) {
        setup(S, p, st);
        std::vector<std::pair<int, std::string>> ops; std::vector<uint64_t> seeds; std::vector<long> throws;
        if (p.has("ops")) for (auto const &o : p.at("ops").a) { ops.push_back({(int)std::max<int64_t>(0, o.geti("iters", 0)), o.gets("edit", "none")}); seeds.push_back((uint64_t)o.geti("edit_seed", 1)); throws.push_back((long)o.geti("throw_at", -1)); }
        if (merge) {
            std::vector<std::pair<int, std::string>> m; std::vector<uint64_t> ms; std::vector<long> mt;
            for (size_t k = 0; k < ops.size(); k++) {
                if (!m.empty() && m.back().second == "none" && mt.back() < 0 && throws[k] < 0) { m.back().first += ops[k].first; m.back().second = ops[k].second; ms.back() = seeds[k]; }
                else { m.push_back(ops[k]); ms.push_back(seeds[k]); mt.push_back(throws[k]); }
            }
            ops = m; seeds = ms; throws = mt;
        }
        std::string lastEdit = "start";
        for (size_t k = 0; k < ops.size(); k++) {
            S.env.resetLogs();
            S.env.throw_at = throws[k];
            bool ci = S.s->isCacheInitialized(), bi = S.s->isBestPositionInitialized();
            S.call(ops[k].first);
            if (check) {
                st.inc("env.domain_tests", (long)S.env.insidelog.size()); st.inc("env.objective_points", (long)S.env.evals.size());
                std::string v = account(S, ci, bi, ops[k].first, lastEdit, st);
                if (!v.empty()) { size_t q = v.find('|'); out.fail(v.substr(0, v.find('/') < q ? v.find('/') : q), "C20/" + v.substr(0, q), v.substr(q + 1)); return false; }
                out.trace.vec(S.s->getParticlePositions()); out.trace.vec(S.s->getBestParticlePositions());
            }
            if (k + 1 < ops.size() || ops[k].second != "none") {
                if (ops[k].second != "none") { applyEdit(S, ops[k].second, seeds[k], st); lastEdit = ops[k].second; }
            }
        }
        return true;
    }

    Outcome execute(const Json &p, Stats &st) override {
        Outcome out;
        Hash sh; sh.s(p.gets("objective")); sh.s(p.gets("domain")); sh.i(p.geti("particles")); sh.i(p.geti("dims")); sh.d(p.getd("inertia")); sh.d(p.getd("cognitive")); sh.d(p.getd("social")); sh.s(p.gets("init"));
        bool hasNone = false; size_t nops = 0;
        if (p.has("ops")) for (auto const &o : p.at("ops").a) { sh.i(o.geti("iters")); sh.s(o.gets("edit")); nops++; }
        if (p.has("ops")) for (size_t k = 0; k + 1 < p.at("ops").a.size(); k++) if (p.at("ops").a[k].gets("edit", "none") == "none") hasNone = true;
        if (p.has("inject")) for (auto const &e : p.at("inject").a) { sh.i(e.geti("nth")); sh.d(e.getd("value")); }
        out.shape = sh.h; out.nontrivial = nops > 0;
        Swarm A;
        if (!runOps(p, false, true, st, out, A)) return out;
        st.inc("runs.as_planned");
        if (hasNone) {
            // n then m iterations must equal n+m under the same stream
            Swarm Bm; Outcome o2; Stats dummy;
            if (!runOps(p, true, true, dummy, o2, Bm)) { out.fail(o2.cls, o2.signature, "(merged run) " + o2.detail); return out; }
            st.inc("runs.merged_twin");
            if (!sameVec(A.s->getParticlePositions(), Bm.s->getParticlePositions()) || !sameVec(A.s->getParticleVelocities(), Bm.s->getParticleVelocities()) ||
                !sameVec(A.s->getBestParticlePositions(), Bm.s->getBestParticlePositions()) || A.env.ndraw != Bm.env.ndraw)
                out.fail("split", "C20/split", "n then m iterations differ from n+m iterations under the same random stream");
        }
        return out;
    }
};

} // namespace

int main(int argc, char **argv) { C20 e; return engine_main(argc, argv, e); }
