// Shared by engines/c13.cpp (OpenMP build, instrumented, run under the simulated libgomp) and
// engines/c13ref.cpp (serial reference build, compiled with the library namespaces renamed so that
// both builds live in one executable). Everything here is in namespace tsgsim, which the reference
// translation unit renames as well; the result type FlatObs is neutral (namespace sim).
#pragma once
#include "sim/json.hpp"
#include "sim/tsg_common.hpp"
#include "TasmanianOptimization.hpp"

namespace sim {
struct FlatSection { std::string name; int kind; std::vector<double> v; std::string s; };
struct FlatObs { std::string op; std::vector<FlatSection> sec; };
}

#ifndef SIM_SECONDARY_TU
extern "C" void tsgBatchGetInterpolationWeightsStatic(void *grid, const double *x, int num_x, double *weights); // C interface: its own parallel loop over the points
#endif

namespace tsgsim {

// interpolation weights for a batch of points: the OpenMP build goes through the C interface (which runs the per-point const queries
// in a parallel loop of its own), the serial reference calls the per-point query in a loop
inline std::vector<double> batchInterpolationWeights(TasmanianSparseGrid &g, const std::vector<double> &X) {
    int d = g.getNumDimensions(), nx = (int)(X.size() / (size_t)d), np = g.getNumPoints();
    std::vector<double> w((size_t)nx * (size_t)np);
#ifndef SIM_SECONDARY_TU
    tsgBatchGetInterpolationWeightsStatic((void *)&g, X.data(), nx, w.data());
#else
    for (int i = 0; i < nx; i++) g.getInterpolationWeights(&X[(size_t)i * (size_t)d], &w[(size_t)i * (size_t)np]);
#endif
    return w;
}

inline sim::FlatObs flatten(const std::string &op, const Obs &o) {
    sim::FlatObs f; f.op = op;
    for (auto &s : o.sec) f.sec.push_back({s.name, s.kind, s.v, s.s});
    return f;
}

// the scripted history: make, then operations, an observation after every step
inline std::vector<sim::FlatObs> runHistory(const sim::Json &p) {
    std::vector<sim::FlatObs> out;
    TasmanianSparseGrid g;
    ObsOpts oo; oo.probes = 6;
    try { doMake(g, p.at("make")); } catch (std::exception &e) { sim::FlatObs f; f.op = std::string("make: exception ") + e.what(); out.push_back(f); return out; }
    // some histories ask for a batch of interpolation weights (C interface in the OpenMP build) right after an operation, BEFORE any other
    // query has touched the grid: lazily built state must meet the team of that parallel loop cold
    bool weights_first = p.getb("weights_first");
    auto coldWeights = [&](const std::string &when) {
        if (!weights_first || g.empty() || g.getNumPoints() == 0 || g.getNumPoints() > 200) return;
        std::vector<double> X = probePoints(g, 4); if (X.empty()) return;
        Obs x; x.round("cold_batch_interpolation_weights", batchInterpolationWeights(g, X)); out.push_back(flatten("weights after " + when, x));
    };
    coldWeights("make");
    out.push_back(flatten("make", observe(g, oo)));
    if (p.has("ops")) for (auto const &o : p.at("ops").a) {
        std::string r = applyOp(g, o, nullptr);
        coldWeights(o.gets("op"));
        out.push_back(flatten(o.gets("op") + " -> " + r, observe(g, oo)));
    }
    // extra parallel paths that observe() does not touch
    if (!g.empty() && g.getNumPoints() > 0) {
        Obs x;
        std::vector<double> X = probePoints(g, 9);
        int d = g.getNumDimensions();
        if (g.getNumOutputs() > 0 && g.getNumLoaded() > 0) {
            std::vector<double> y; g.evaluateBatch(X, y); x.round("evaluateBatch9", y);
            if (g.isLocalPolynomial() || g.isWavelet()) { std::vector<int> pn, ix; std::vector<double> vl; g.evaluateSparseHierarchicalFunctions(X, pn, ix, vl); x.round("sparse_vals", vl); x.exacti("sparse_pntr", pn); x.exacti("sparse_indx", ix);
                if (g.isLocalPolynomial()) { int nx = (int)(X.size() / (size_t)d); int nz = g.evaluateSparseHierarchicalFunctionsGetNZ(X.data(), nx); x.exacti("sparse_nz", std::vector<int>{nz});
                    std::vector<int> sp((size_t)nx + 1), si((size_t)nz); std::vector<double> sv((size_t)nz); g.evaluateSparseHierarchicalFunctionsStatic(X.data(), nx, sp.data(), si.data(), sv.data()); x.round("sparse_static_vals", sv); x.exacti("sparse_static_indx", si); } }
            if ((g.isGlobal() && !TasGrid::OneDimensionalMeta::isNonNested(g.getRule())) || g.isSequence() || g.isFourier()) { try { std::vector<int> w; g.estimateAnisotropicCoefficients(TasGrid::type_iptotal, 0, w); x.exacti("aniso_coeffs", w); } catch (std::exception &e) { x.str("aniso_coeffs", e.what()); } }
            if (g.isGlobal() || g.isSequence()) { x.exacti("poly_space_i", g.getGlobalPolynomialSpace(true)); x.exacti("poly_space_q", g.getGlobalPolynomialSpace(false)); }
        }
        if (g.getNumPoints() <= 200) x.round("batch_interpolation_weights", batchInterpolationWeights(g, std::vector<double>(X.begin(), X.begin() + 4 * d)));
        x.round("hier_functions9", g.evaluateHierarchicalFunctions(X));
        x.round("hier_support", g.getHierarchicalSupport());
        { std::vector<double> q((size_t)g.getNumPoints()); g.integrateHierarchicalFunctions(q.data()); x.round("hier_integrals", q); }
        if (!g.isSetConformalTransformASIN()) x.round("diff_weights", g.getDifferentiationWeights(std::vector<double>(X.begin(), X.begin() + d)));
        out.push_back(flatten("extra", x));
    }
    // particle swarm: the velocity/position update loops are parallel
    if (p.has("swarm")) {
        const sim::Json &s = p.at("swarm");
        int nd = (int)s.geti("dims", 2), np = (int)s.geti("particles", 5), it = (int)s.geti("iterations", 3);
        sim::Rng r((uint64_t)s.geti("seed", 3));
        TasOptimization::ParticleSwarmState state(nd, np);
        std::vector<double> lo((size_t)nd, -2.0), hi((size_t)nd, 2.0);
        state.initializeParticlesInsideBox(lo, hi, [&]() -> double { return r.uniform(); });
        auto f = [&](const std::vector<double> &x, std::vector<double> &y) { for (size_t i = 0; i < y.size(); i++) { double v = 0; for (int k = 0; k < nd; k++) { double t = x[i * (size_t)nd + (size_t)k] - 0.3 * (k + 1); v += t * t; } y[i] = v; } };
        auto inside = [&](const std::vector<double> &x) -> bool { for (double v : x) if (v < -2.0 || v > 2.0) return false; return true; };
        TasOptimization::ParticleSwarm(f, inside, s.getd("inertia", 0.5), s.getd("cognitive", 2.0), s.getd("social", 2.0), it, state, [&]() -> double { return r.uniform(); });
        Obs x; x.exact("swarm_positions", state.getParticlePositions()); x.exact("swarm_velocities", state.getParticleVelocities()); x.exact("swarm_best", state.getBestParticlePositions());
        out.push_back(flatten("swarm", x));
    }
    return out;
}

} // namespace tsgsim
