// C14 — misuse as injected faults: a seeded valid history runs on a grid G and on an un-faulted
// twin T; at seeded positions a documented misuse (wrong sizes / ranges / grid type / empty grid /
// out-of-order call / unreadable or non-Tasmanian file, the I/O clauses through the simulated
// file system) is issued on G only. Oracle: the call raises std::invalid_argument or
// std::runtime_error (nothing else, no crash, no sanitizer report) and afterwards G has exactly the
// points, values and surrogate of T - or is empty after a failed make/read - and stays usable:
// the rest of the history behaves identically on G and T.
#include "sim/engine.hpp"
#include "sim/tsg_common.hpp"
#include "sim/simfs.hpp"
#include <functional>
#include <typeinfo>

using namespace sim;
using namespace tsgsim;
using namespace TasGrid;

extern "C" int tsgRead(void *grid, const char *filename); // C interface: reports failure by its return value, no exception may escape it

namespace {

struct Clause {
    const char *id;
    const char *documented;                                   // "invalid_argument" | "runtime_error"
    bool may_empty;                                           // a failed make/read may leave the object empty
    std::function<bool(const TasmanianSparseGrid &)> applicable;
    std::function<void(TasmanianSparseGrid &, Rng &)> run;
};

bool nonEmpty(const TasmanianSparseGrid &g) { return !g.empty(); }
bool any(const TasmanianSparseGrid &) { return true; }
bool isGSF(const TasmanianSparseGrid &g) { return g.isGlobal() || g.isSequence() || g.isFourier(); }
bool refinable(const TasmanianSparseGrid &g) { return !g.empty() && g.getNumOutputs() > 0 && g.getNumLoaded() > 0 && !g.isUsingConstruction(); }
std::vector<int> wrongSize(const TasmanianSparseGrid &g, Rng &r, int fill) { int d = g.empty() ? 2 : g.getNumDimensions(); int n = r.chance(0.5) ? d + 1 + (int)r.below(2) : std::max(1, d - 1); if (n == d) n = d + 1; return std::vector<int>((size_t)n, fill); }

std::string validFile(bool binary) {
    TasmanianSparseGrid t; t.makeGlobalGrid(2, 1, 2, type_level, rule_clenshawcurtis);
    std::ostringstream os; t.write(os, binary); return os.str();
}
void putFile(const std::string &path, const std::string &bytes) { auto &f = simfs::fs().files[path]; f.assign(bytes.begin(), bytes.end()); }

std::vector<Clause> buildClauses() {
    std::vector<Clause> c;
    auto add = [&](const char *id, const char *doc, bool me, std::function<bool(const TasmanianSparseGrid &)> a, std::function<void(TasmanianSparseGrid &, Rng &)> r) { c.push_back({id, doc, me, a, r}); };
    // ---- make*
    add("makeGlobal/dims", "invalid_argument", true, any, [](TasmanianSparseGrid &g, Rng &r) { g.makeGlobalGrid(r.chance(0.5) ? 0 : -1, 1, 2, type_level, rule_clenshawcurtis); });
    add("makeGlobal/outputs", "invalid_argument", true, any, [](TasmanianSparseGrid &g, Rng &) { g.makeGlobalGrid(2, -1, 2, type_level, rule_clenshawcurtis); });
    add("makeGlobal/depth", "invalid_argument", true, any, [](TasmanianSparseGrid &g, Rng &) { g.makeGlobalGrid(2, 1, -1, type_level, rule_clenshawcurtis); });
    add("makeGlobal/rule", "invalid_argument", true, any, [](TasmanianSparseGrid &g, Rng &r) { g.makeGlobalGrid(2, 1, 2, type_level, r.pick<TypeOneDRule>({rule_localp, rule_fourier, rule_wavelet, rule_semilocalp})); });
    add("makeGlobal/custom-no-file", "invalid_argument", true, any, [](TasmanianSparseGrid &g, Rng &) { g.makeGlobalGrid(2, 1, 2, type_level, rule_customtabulated); });
    add("makeGlobal/aniso-size", "invalid_argument", true, any, [](TasmanianSparseGrid &g, Rng &r) { g.makeGlobalGrid(2, 1, 2, r.chance(0.5) ? type_iptotal : type_ipcurved, rule_leja, std::vector<int>{1, 2, 3}); });
    add("makeGlobal/limits-size", "invalid_argument", true, any, [](TasmanianSparseGrid &g, Rng &) { g.makeGlobalGrid(2, 1, 2, type_level, rule_leja, std::vector<int>(), 0.0, 0.0, nullptr, std::vector<int>{1}); });
    add("makeGlobal/custom-file-missing", "runtime_error", true, any, [](TasmanianSparseGrid &g, Rng &) { g.makeGlobalGrid(2, 1, 2, type_level, rule_customtabulated, std::vector<int>(), 0.0, 0.0, "/simfs/no-such-rule.table"); });
    // Gauss-Patterson nodes are tabulated for 9 levels only; a deeper request is refused (boundary: the first level beyond the table)
    add("makeGlobal/gauss-patterson-depth", "runtime_error", true, any, [](TasmanianSparseGrid &g, Rng &r) { g.makeGlobalGrid(r.range(1, 2), 1, r.pick<int>({9, 9, 10, 12}), type_level, rule_gausspatterson); });
    add("makeGlobal/gauss-patterson-depth-tensor", "runtime_error", true, any, [](TasmanianSparseGrid &g, Rng &r) { g.makeGlobalGrid(1, 0, r.pick<int>({9, 11}), type_tensor, rule_gausspatterson); });
    add("updateGlobal/gauss-patterson-depth", "runtime_error", true, [](const TasmanianSparseGrid &g) { return g.isGlobal() && g.getRule() == rule_gausspatterson && !g.isUsingConstruction(); },
        [](TasmanianSparseGrid &g, Rng &r) { g.updateGlobalGrid(r.pick<int>({9, 9, 10}), type_level, std::vector<int>(), std::vector<int>((size_t)g.getNumDimensions(), -1)); }); // explicit "no limits": stored limits could keep the levels inside the table
    // raw-array overloads with non-null arrays: "throws the same exceptions" as the vector overloads
    add("makeGlobal/raw-dims", "invalid_argument", true, any, [](TasmanianSparseGrid &g, Rng &r) { int w[6] = {1, 1, 1, 1, 1, 1}, l[3] = {2, 2, 2}; g.makeGlobalGrid(r.pick<int>({-1, -1, 0, -3}), 1, 2, r.chance(0.5) ? type_level : type_curved, rule_clenshawcurtis, w, 0.0, 0.0, nullptr, r.chance(0.5) ? l : nullptr); });
    add("makeSequence/raw-dims", "invalid_argument", true, any, [](TasmanianSparseGrid &g, Rng &r) { int w[6] = {1, 1, 1, 1, 1, 1}, l[3] = {2, 2, 2}; g.makeSequenceGrid(r.pick<int>({-1, 0, -2}), 1, 2, type_level, rule_leja, r.chance(0.5) ? w : nullptr, l); });
    add("makeLocalPolynomial/raw-dims", "invalid_argument", true, any, [](TasmanianSparseGrid &g, Rng &r) { int l[3] = {2, 2, 2}; g.makeLocalPolynomialGrid(r.pick<int>({-1, 0, -2}), 1, 2, 1, rule_localp, l); });
    add("makeWavelet/raw-dims", "invalid_argument", true, any, [](TasmanianSparseGrid &g, Rng &r) { int l[3] = {2, 2, 2}; g.makeWaveletGrid(r.pick<int>({-1, 0, -2}), 1, 2, 1, l); });
    add("makeFourier/raw-dims", "invalid_argument", true, any, [](TasmanianSparseGrid &g, Rng &r) { int w[6] = {1, 1, 1, 1, 1, 1}, l[3] = {2, 2, 2}; g.makeFourierGrid(r.pick<int>({-1, 0, -2}), 1, 2, type_level, w, r.chance(0.5) ? l : nullptr); });
    add("makeSequence/dims", "invalid_argument", true, any, [](TasmanianSparseGrid &g, Rng &) { g.makeSequenceGrid(0, 1, 2, type_level, rule_leja); });
    add("makeSequence/outputs", "invalid_argument", true, any, [](TasmanianSparseGrid &g, Rng &) { g.makeSequenceGrid(2, -2, 2, type_level, rule_leja); });
    add("makeSequence/depth", "invalid_argument", true, any, [](TasmanianSparseGrid &g, Rng &) { g.makeSequenceGrid(2, 1, -1, type_level, rule_leja); });
    add("makeSequence/rule", "invalid_argument", true, any, [](TasmanianSparseGrid &g, Rng &r) { g.makeSequenceGrid(2, 1, 2, type_level, r.pick<TypeOneDRule>({rule_clenshawcurtis, rule_gausslegendre, rule_localp})); });
    add("makeSequence/aniso-size", "invalid_argument", true, any, [](TasmanianSparseGrid &g, Rng &) { g.makeSequenceGrid(2, 1, 2, type_iptotal, rule_leja, std::vector<int>{1}); });
    add("makeSequence/limits-size", "invalid_argument", true, any, [](TasmanianSparseGrid &g, Rng &) { g.makeSequenceGrid(2, 1, 2, type_level, rule_leja, std::vector<int>(), std::vector<int>{1, 1, 1}); });
    add("makeLocalPolynomial/dims", "invalid_argument", true, any, [](TasmanianSparseGrid &g, Rng &) { g.makeLocalPolynomialGrid(0, 1, 2, 1, rule_localp); });
    add("makeLocalPolynomial/outputs", "invalid_argument", true, any, [](TasmanianSparseGrid &g, Rng &) { g.makeLocalPolynomialGrid(2, -1, 2, 1, rule_localp); });
    add("makeLocalPolynomial/depth", "invalid_argument", true, any, [](TasmanianSparseGrid &g, Rng &) { g.makeLocalPolynomialGrid(2, 1, -3, 1, rule_localp); });
    add("makeLocalPolynomial/order", "invalid_argument", true, any, [](TasmanianSparseGrid &g, Rng &) { g.makeLocalPolynomialGrid(2, 1, 2, -2, rule_localp); });
    add("makeLocalPolynomial/rule", "invalid_argument", true, any, [](TasmanianSparseGrid &g, Rng &r) { g.makeLocalPolynomialGrid(2, 1, 2, 1, r.pick<TypeOneDRule>({rule_leja, rule_clenshawcurtis, rule_fourier})); });
    add("makeLocalPolynomial/limits-size", "invalid_argument", true, any, [](TasmanianSparseGrid &g, Rng &) { g.makeLocalPolynomialGrid(2, 1, 2, 1, rule_localp, std::vector<int>{3}); });
    add("makeWavelet/dims", "invalid_argument", true, any, [](TasmanianSparseGrid &g, Rng &) { g.makeWaveletGrid(-1, 1, 1, 1); });
    add("makeWavelet/outputs", "invalid_argument", true, any, [](TasmanianSparseGrid &g, Rng &) { g.makeWaveletGrid(2, -1, 1, 1); });
    add("makeWavelet/depth", "invalid_argument", true, any, [](TasmanianSparseGrid &g, Rng &) { g.makeWaveletGrid(2, 1, -1, 1); });
    add("makeWavelet/order", "invalid_argument", true, any, [](TasmanianSparseGrid &g, Rng &r) { g.makeWaveletGrid(2, 1, 1, r.pick<int>({0, 2, 4, -1})); });
    add("makeWavelet/limits-size", "invalid_argument", true, any, [](TasmanianSparseGrid &g, Rng &) { g.makeWaveletGrid(2, 1, 1, 1, std::vector<int>{1, 1, 1}); });
    add("makeFourier/dims", "invalid_argument", true, any, [](TasmanianSparseGrid &g, Rng &) { g.makeFourierGrid(0, 1, 1, type_level); });
    add("makeFourier/outputs", "invalid_argument", true, any, [](TasmanianSparseGrid &g, Rng &) { g.makeFourierGrid(2, -1, 1, type_level); });
    add("makeFourier/depth", "invalid_argument", true, any, [](TasmanianSparseGrid &g, Rng &) { g.makeFourierGrid(2, 1, -1, type_level); });
    add("makeFourier/aniso-size", "invalid_argument", true, any, [](TasmanianSparseGrid &g, Rng &) { g.makeFourierGrid(2, 1, 1, type_iptotal, std::vector<int>{1, 2, 3}); });
    add("makeFourier/limits-size", "invalid_argument", true, any, [](TasmanianSparseGrid &g, Rng &) { g.makeFourierGrid(2, 1, 1, type_level, std::vector<int>(), std::vector<int>{1}); });
    // ---- update*
    auto isEmpty = [](const TasmanianSparseGrid &g) { return g.empty(); };
    add("updateGlobalGrid/empty", "runtime_error", false, isEmpty, [](TasmanianSparseGrid &g, Rng &) { g.updateGlobalGrid(2, type_level, std::vector<int>()); });
    add("updateSequenceGrid/empty", "runtime_error", false, isEmpty, [](TasmanianSparseGrid &g, Rng &) { g.updateSequenceGrid(2, type_level, std::vector<int>()); });
    add("updateFourierGrid/empty", "runtime_error", false, isEmpty, [](TasmanianSparseGrid &g, Rng &) { g.updateFourierGrid(2, type_level, std::vector<int>()); });
    add("updateGrid/empty", "runtime_error", false, isEmpty, [](TasmanianSparseGrid &g, Rng &) { g.updateGrid(2, type_level, std::vector<int>()); });
    add("updateGrid/wrong-family", "runtime_error", false, [](const TasmanianSparseGrid &g) { return g.isLocalPolynomial() || g.isWavelet(); },
        [](TasmanianSparseGrid &g, Rng &r) { std::vector<int> lim; if (r.chance(0.5)) lim.assign((size_t)g.getNumDimensions(), 1); g.updateGrid(3, type_level, std::vector<int>(), lim); });
    add("updateGrid/depth", "invalid_argument", false, isGSF, [](TasmanianSparseGrid &g, Rng &) { g.updateGrid(-1, type_level, std::vector<int>()); });
    add("updateGrid/aniso-size", "invalid_argument", false, isGSF, [](TasmanianSparseGrid &g, Rng &r) { TypeDepth t = r.chance(0.5) ? type_iptotal : type_ipcurved; std::vector<int> a = wrongSize(g, r, 1); if (t == type_ipcurved && (int)a.size() == 2 * g.getNumDimensions()) a.push_back(1); g.updateGrid(2, t, a); });
    add("updateGrid/limits-size", "invalid_argument", false, isGSF, [](TasmanianSparseGrid &g, Rng &r) { g.updateGrid(2, type_level, std::vector<int>(), wrongSize(g, r, 2)); });
    // ---- sizes of x / values
    auto hasPoints = [](const TasmanianSparseGrid &g) { return !g.empty() && g.getNumPoints() > 0; };
    add("getInterpolationWeights/x-size", "runtime_error", false, hasPoints, [](TasmanianSparseGrid &g, Rng &r) { std::vector<double> x((size_t)g.getNumDimensions() + 1 + r.below(2), 0.1); (void)g.getInterpolationWeights(x); });
    add("getInterpolationWeights/x-size-out", "runtime_error", false, hasPoints, [](TasmanianSparseGrid &g, Rng &) { std::vector<double> x((size_t)std::max(0, g.getNumDimensions() - 1), 0.1), w; g.getInterpolationWeights(x, w); });
    add("getDifferentiationWeights/x-size", "runtime_error", false, hasPoints, [](TasmanianSparseGrid &g, Rng &) { std::vector<double> x((size_t)g.getNumDimensions() + 2, 0.1); (void)g.getDifferentiationWeights(x); });
    add("loadNeededValues/size", "runtime_error", false, [](const TasmanianSparseGrid &g) { return !g.empty() && g.getNumOutputs() > 0 && g.getNumPoints() > 0 && !g.isUsingConstruction(); },
        [](TasmanianSparseGrid &g, Rng &r) { size_t n = (size_t)(g.getNumNeeded() > 0 ? g.getNumNeeded() : g.getNumPoints()) * (size_t)g.getNumOutputs(); size_t m = r.chance(0.5) ? n + 1 + r.below(3) : (n > 1 ? n - 1 : 0); if (m == n) m = n + 1; g.loadNeededValues(std::vector<double>(m, 0.5)); });
    add("evaluate/x-size", "runtime_error", false, [](const TasmanianSparseGrid &g) { return !g.empty() && g.getNumOutputs() > 0 && g.getNumLoaded() > 0; },
        [](TasmanianSparseGrid &g, Rng &r) { std::vector<double> x((size_t)g.getNumDimensions() + (r.chance(0.5) ? 1 : -1), 0.1), y; g.evaluate(x, y); });
    // ---- transforms
    add("setDomainTransform/empty", "runtime_error", false, isEmpty, [](TasmanianSparseGrid &g, Rng &) { g.setDomainTransform(std::vector<double>{0.0}, std::vector<double>{1.0}); });
    add("setDomainTransform/a-size", "invalid_argument", false, nonEmpty, [](TasmanianSparseGrid &g, Rng &r) { size_t d = (size_t)g.getNumDimensions(); g.setDomainTransform(std::vector<double>(d + 1 + r.below(2), -2.0), std::vector<double>(d, 3.0)); });
    add("setDomainTransform/b-size", "invalid_argument", false, nonEmpty, [](TasmanianSparseGrid &g, Rng &r) { size_t d = (size_t)g.getNumDimensions(); g.setDomainTransform(std::vector<double>(d, -2.0), std::vector<double>(r.chance(0.5) ? d + 1 : d - 1, 3.0)); });
    add("getDomainTransform/not-set", "runtime_error", false, [](const TasmanianSparseGrid &g) { return g.empty() || !g.isSetDomainTransfrom(); }, [](TasmanianSparseGrid &g, Rng &) { double a[8], b[8]; g.getDomainTransform(a, b); });
    // ---- refinement
    add("setAnisotropicRefinement/construction", "runtime_error", false, [](const TasmanianSparseGrid &g) { return g.isUsingConstruction(); }, [](TasmanianSparseGrid &g, Rng &) { g.setAnisotropicRefinement(type_iptotal, 1, 0, std::vector<int>()); });
    add("setAnisotropicRefinement/no-loaded", "runtime_error", false, [](const TasmanianSparseGrid &g) { return !g.empty() && !g.isUsingConstruction() && (g.getNumOutputs() == 0 || g.getNumLoaded() == 0); }, [](TasmanianSparseGrid &g, Rng &) { g.setAnisotropicRefinement(type_iptotal, 1, 0, std::vector<int>()); });
    add("setAnisotropicRefinement/min-growth", "invalid_argument", false, refinable, [](TasmanianSparseGrid &g, Rng &r) { g.setAnisotropicRefinement(type_iptotal, r.chance(0.5) ? 0 : -3, 0, std::vector<int>()); });
    add("setAnisotropicRefinement/output-range", "invalid_argument", false, refinable, [](TasmanianSparseGrid &g, Rng &r) { g.setAnisotropicRefinement(type_iptotal, 1, r.chance(0.5) ? g.getNumOutputs() : -2, std::vector<int>()); });
    add("setAnisotropicRefinement/output-all-global", "invalid_argument", false, [](const TasmanianSparseGrid &g) { return refinable(g) && g.isGlobal() && !OneDimensionalMeta::isNonNested(g.getRule()); }, [](TasmanianSparseGrid &g, Rng &) { g.setAnisotropicRefinement(type_iptotal, 1, -1, std::vector<int>()); });
    add("setAnisotropicRefinement/limits-size", "invalid_argument", false, refinable, [](TasmanianSparseGrid &g, Rng &r) { g.setAnisotropicRefinement(type_iptotal, 1, 0, wrongSize(g, r, 3)); });
    add("estimateAnisotropicCoefficients/no-loaded", "runtime_error", false, [](const TasmanianSparseGrid &g) { return g.empty() || g.getNumOutputs() == 0 || g.getNumLoaded() == 0; }, [](TasmanianSparseGrid &g, Rng &) { (void)g.estimateAnisotropicCoefficients(type_iptotal, 0); });
    add("estimateAnisotropicCoefficients/output-range", "invalid_argument", false, refinable, [](TasmanianSparseGrid &g, Rng &r) { (void)g.estimateAnisotropicCoefficients(type_iptotal, r.chance(0.5) ? g.getNumOutputs() + 1 : -2); });
    add("estimateAnisotropicCoefficients/output-all-global", "invalid_argument", false, [](const TasmanianSparseGrid &g) { return refinable(g) && g.isGlobal() && !OneDimensionalMeta::isNonNested(g.getRule()); }, [](TasmanianSparseGrid &g, Rng &) { (void)g.estimateAnisotropicCoefficients(type_iptotal, -1); });
    add("setSurplusRefinement/construction", "runtime_error", false, [](const TasmanianSparseGrid &g) { return g.isUsingConstruction(); }, [](TasmanianSparseGrid &g, Rng &r) { if (r.chance(0.5)) g.setSurplusRefinement(0.01, 0, std::vector<int>()); else g.setSurplusRefinement(0.01, refine_classic, 0, std::vector<int>()); });
    add("setSurplusRefinement/empty", "runtime_error", false, isEmpty, [](TasmanianSparseGrid &g, Rng &r) { if (r.chance(0.5)) g.setSurplusRefinement(0.01, 0, std::vector<int>()); else g.setSurplusRefinement(0.01, refine_classic, 0, std::vector<int>()); });
    add("setSurplusRefinement/no-values", "runtime_error", false, [](const TasmanianSparseGrid &g) { return !g.empty() && !g.isUsingConstruction() && (g.getNumOutputs() == 0 || g.getNumLoaded() == 0); }, [](TasmanianSparseGrid &g, Rng &r) { if (r.chance(0.5)) g.setSurplusRefinement(0.01, 0, std::vector<int>()); else g.setSurplusRefinement(0.01, refine_classic, 0, std::vector<int>()); });
    add("setSurplusRefinement/output-range", "invalid_argument", false, refinable, [](TasmanianSparseGrid &g, Rng &r) { int o = r.chance(0.5) ? g.getNumOutputs() : -2; if (g.isLocalPolynomial() || g.isWavelet()) g.setSurplusRefinement(0.01, refine_classic, o, std::vector<int>()); else g.setSurplusRefinement(0.01, o, std::vector<int>()); });
    add("setSurplusRefinement/output-all-global", "invalid_argument", false, [](const TasmanianSparseGrid &g) { return refinable(g) && g.isGlobal() && OneDimensionalMeta::isSequence(g.getRule()); }, [](TasmanianSparseGrid &g, Rng &) { g.setSurplusRefinement(0.01, -1, std::vector<int>()); });
    add("setSurplusRefinement/tolerance", "invalid_argument", false, [](const TasmanianSparseGrid &g) { return refinable(g) && !g.isFourier(); }, [](TasmanianSparseGrid &g, Rng &) { if (g.isLocalPolynomial() || g.isWavelet()) g.setSurplusRefinement(-0.5, refine_classic, 0, std::vector<int>()); else g.setSurplusRefinement(-0.5, 0, std::vector<int>()); });
    add("setSurplusRefinement/limits-size", "invalid_argument", false, [](const TasmanianSparseGrid &g) { return refinable(g) && !g.isFourier(); }, [](TasmanianSparseGrid &g, Rng &r) { if (g.isLocalPolynomial() || g.isWavelet()) g.setSurplusRefinement(0.01, refine_classic, 0, wrongSize(g, r, 2)); else g.setSurplusRefinement(0.01, 0, wrongSize(g, r, 2)); });
    add("setSurplusRefinement/scale-size", "invalid_argument", false, [](const TasmanianSparseGrid &g) { return refinable(g) && g.isLocalPolynomial(); }, [](TasmanianSparseGrid &g, Rng &) { g.setSurplusRefinement(0.01, refine_classic, 0, std::vector<int>(), std::vector<double>((size_t)g.getNumLoaded() + 3, 1.0)); });
    add("setSurplusRefinement/fourier", "runtime_error", false, [](const TasmanianSparseGrid &g) { return refinable(g) && g.isFourier(); }, [](TasmanianSparseGrid &g, Rng &) { g.setSurplusRefinement(0.01, refine_classic, 0, std::vector<int>()); });
    // ---- construction
    auto notConstructing = [](const TasmanianSparseGrid &g) { return !g.empty() && !g.isUsingConstruction() && g.getNumOutputs() > 0; };
    add("getCandidateConstructionPoints/before-begin", "runtime_error", false, notConstructing, [](TasmanianSparseGrid &g, Rng &r) {
        int k = (int)r.below(3); size_t d = (size_t)g.getNumDimensions();
        if (k == 0) (void)g.getCandidateConstructionPoints(type_iptotal, std::vector<int>(d, 1)); else if (k == 1) (void)g.getCandidateConstructionPoints(type_iptotal, 0); else (void)g.getCandidateConstructionPoints(1e-3, refine_classic, 0); });
    auto constructingGSF = [](const TasmanianSparseGrid &g) { return g.isUsingConstruction() && isGSF(g); };
    add("getCandidateConstructionPoints/local-family", "runtime_error", false, [](const TasmanianSparseGrid &g) { return g.isUsingConstruction() && (g.isLocalPolynomial() || g.isWavelet()); }, [](TasmanianSparseGrid &g, Rng &r) {
        if (r.chance(0.5)) (void)g.getCandidateConstructionPoints(type_iptotal, std::vector<int>((size_t)g.getNumDimensions(), 1)); else (void)g.getCandidateConstructionPoints(type_iptotal, 0); });
    add("getCandidateConstructionPoints/aniso-size", "invalid_argument", false, constructingGSF, [](TasmanianSparseGrid &g, Rng &r) { TypeDepth t = r.chance(0.5) ? type_iptotal : type_ipcurved; std::vector<int> a = wrongSize(g, r, 1); if (t == type_ipcurved && (int)a.size() == 2 * g.getNumDimensions()) a.push_back(1); (void)g.getCandidateConstructionPoints(t, a); });
    add("getCandidateConstructionPoints/limits-size", "invalid_argument", false, constructingGSF, [](TasmanianSparseGrid &g, Rng &r) { (void)g.getCandidateConstructionPoints(type_iptotal, std::vector<int>((size_t)g.getNumDimensions(), 1), wrongSize(g, r, 2)); });
    add("getCandidateConstructionPoints/output-range", "invalid_argument", false, [](const TasmanianSparseGrid &g) { return g.isUsingConstruction() && isGSF(g) && g.getNumOutputs() > 0; }, [](TasmanianSparseGrid &g, Rng &r) { (void)g.getCandidateConstructionPoints(type_iptotal, r.chance(0.5) ? g.getNumOutputs() : -2); });
    add("getCandidateConstructionPoints/output-all-global", "invalid_argument", false, [](const TasmanianSparseGrid &g) { return g.isUsingConstruction() && g.isGlobal() && g.getNumOutputs() > 0 && !OneDimensionalMeta::isNonNested(g.getRule()); }, [](TasmanianSparseGrid &g, Rng &) { (void)g.getCandidateConstructionPoints(type_iptotal, -1); });
    add("loadConstructedPoints/y-size", "runtime_error", false, [](const TasmanianSparseGrid &g) { return g.isUsingConstruction() && g.getNumOutputs() > 0 && g.getNumPoints() > 0; }, [](TasmanianSparseGrid &g, Rng &r) {
        std::vector<double> x = g.getPoints(); size_t d = (size_t)g.getNumDimensions(); size_t n = std::min<size_t>(x.size() / d, 1 + r.below(3)); x.resize(n * d);
        g.loadConstructedPoints(x, std::vector<double>(n * (size_t)g.getNumOutputs() - 1, 0.5)); });
    // ---- hierarchy
    add("setHierarchicalCoefficients/size", "runtime_error", false, [](const TasmanianSparseGrid &g) { return !g.empty() && g.getNumOutputs() > 0 && g.getNumPoints() > 0 && !g.isUsingConstruction(); },
        [](TasmanianSparseGrid &g, Rng &r) { size_t n = (size_t)g.getNumPoints() * (size_t)g.getNumOutputs() * (g.isFourier() ? 2 : 1); g.setHierarchicalCoefficients(std::vector<double>(r.chance(0.5) ? n + 1 : n - 1, 0.25)); });
    add("getGlobalPolynomialSpace/family", "runtime_error", false, [](const TasmanianSparseGrid &g) { return g.isLocalPolynomial() || g.isWavelet() || g.isFourier(); }, [](TasmanianSparseGrid &g, Rng &r) { (void)g.getGlobalPolynomialSpace(r.chance(0.5)); });
    add("removePointsByHierarchicalCoefficient/family", "runtime_error", false, [](const TasmanianSparseGrid &g) { return !g.empty() && !g.isLocalPolynomial(); }, [](TasmanianSparseGrid &g, Rng &r) { if (r.chance(0.4)) g.removePointsByHierarchicalCoefficient(0.1, 0); else g.removePointsByHierarchicalCoefficient(r.pick<int>({3, 0, 1, 0}), 0); }); // incl. the boundary count 0 ("keep nothing")
    // ---- acceleration (no GPU in this build)
    add("evaluateBatch/float-no-gpu", "runtime_error", false, [](const TasmanianSparseGrid &g) { return !g.empty() && g.getNumOutputs() > 0 && g.getNumLoaded() > 0; }, [](TasmanianSparseGrid &g, Rng &) { std::vector<float> x((size_t)g.getNumDimensions(), 0.1f), y; g.evaluateBatch(x, y); });
    add("evaluateBatchGPU/no-gpu", "runtime_error", false, [](const TasmanianSparseGrid &g) { return !g.empty() && g.getNumOutputs() > 0 && g.getNumLoaded() > 0; }, [](TasmanianSparseGrid &g, Rng &) { std::vector<double> x((size_t)g.getNumDimensions(), 0.1), y((size_t)g.getNumOutputs()); g.evaluateBatchGPU(x.data(), 1, y.data()); });
    add("setCuBlasHandle/no-gpu", "runtime_error", false, any, [](TasmanianSparseGrid &g, Rng &r) { int k = (int)r.below(6); void *h = nullptr; if (k == 0) g.setCuBlasHandle(h); else if (k == 1) g.setCuSparseHandle(h); else if (k == 2) g.setCuSolverHandle(h); else if (k == 3) g.setRocBlasHandle(h); else if (k == 4) g.setRocSparseHandle(h); else g.setSycleQueue(h); });
    // ---- files (simulated file system)
    add("read/missing-file", "runtime_error", true, any, [](TasmanianSparseGrid &g, Rng &) { g.read("/simfs/does-not-exist.tsg"); });
    add("read/permission-denied", "runtime_error", true, any, [](TasmanianSparseGrid &g, Rng &r) { putFile("/simfs/secret.tsg", validFile(r.chance(0.5))); simfs::fs().open_errno["/simfs/secret.tsg"] = EACCES; g.read("/simfs/secret.tsg"); });
    add("read/zero-length", "runtime_error", true, any, [](TasmanianSparseGrid &g, Rng &) { putFile("/simfs/empty.tsg", ""); g.read("/simfs/empty.tsg"); });
    add("read/wrong-header-ascii", "runtime_error", true, any, [](TasmanianSparseGrid &g, Rng &r) { std::string s = validFile(false); int k = (int)r.below(3); if (k == 0) s.replace(0, 9, "TASMANIAM"); else if (k == 1) s.replace(10, 2, "GS"); else s = "This is not a sparse grid\n" + s; putFile("/simfs/bad.tsg", s); g.read("/simfs/bad.tsg"); });
    add("read/wrong-header-binary", "runtime_error", true, any, [](TasmanianSparseGrid &g, Rng &r) { std::string s = validFile(true); if (r.chance(0.5)) s[3] = '9'; else s[3] = '4'; putFile("/simfs/bad.tsg", s); g.read("/simfs/bad.tsg"); });
    add("read/unknown-type-ascii", "runtime_error", true, any, [](TasmanianSparseGrid &g, Rng &) { std::string s = validFile(false); size_t p = s.find("global"); if (p != std::string::npos) s.replace(p, 6, "glibal"); putFile("/simfs/bad.tsg", s); g.read("/simfs/bad.tsg"); });
    add("read/unknown-type-binary", "runtime_error", true, any, [](TasmanianSparseGrid &g, Rng &) { std::string s = validFile(true); s[4] = 'q'; putFile("/simfs/bad.tsg", s); g.read("/simfs/bad.tsg"); });
    add("read/future-version-ascii", "runtime_error", true, any, [](TasmanianSparseGrid &g, Rng &) { std::string s = validFile(false); size_t p = s.find("SG ") + 3, e = s.find_first_of(" \n", p); s.replace(p, e - p, "99.1"); putFile("/simfs/bad.tsg", s); g.read("/simfs/bad.tsg"); });
    // the same unreadable / non-Tasmanian files through the C interface: the wrapper turns the failure into return value 0
    add("read-c-interface/bad-file", "runtime_error", true, any, [](TasmanianSparseGrid &g, Rng &r) {
        const char *name = "/simfs/does-not-exist.tsg";
        int how = (int)r.below(4);
        if (how == 1) { putFile("/simfs/empty.tsg", ""); name = "/simfs/empty.tsg"; }
        else if (how == 2) { std::string s = validFile(false); s[0] = 'X'; putFile("/simfs/bad.tsg", s); name = "/simfs/bad.tsg"; }
        else if (how == 3) { std::string s = validFile(true); s[4] = 'q'; putFile("/simfs/bad.tsg", s); name = "/simfs/bad.tsg"; }
        int ok = 1;
        try { ok = tsgRead((void *)&g, name); } catch (std::exception &e) { throw std::logic_error(std::string("an exception escaped the C interface tsgRead(): ") + e.what()); }
        if (ok == 0) throw std::runtime_error("tsgRead() returned 0"); // the documented way the wrapper reports the error
    });
    // a Tasmanian header and grid block followed by a damaged trailing section (transforms / limits / construction flag / end marker)
    add("read/damaged-trailer-ascii", "runtime_error", true, any, [](TasmanianSparseGrid &g, Rng &r) {
        TasmanianSparseGrid t; t.makeGlobalGrid(3, 1, 2, type_level, rule_clenshawcurtis); double a[3] = {-1, 0, 1}, b[3] = {2, 3, 4}; if (r.chance(0.6)) t.setDomainTransform(a, b);
        std::vector<double> v((size_t)t.getNumNeeded(), 1.5); if (r.chance(0.5)) t.loadNeededValues(v);
        std::ostringstream os; t.write(os, mode_ascii); std::string s = os.str();
        std::vector<std::string> words{"TASMANIAN SG end", "nonconformal", "unlimited", "static", "canonical", "custom"};
        std::string w = words[r.below(words.size())]; size_t p = s.rfind(w);
        if (p == std::string::npos) { w = "TASMANIAN SG end"; p = s.rfind(w); }
        int how = (int)r.below(3);
        if (how == 0) s.replace(p + w.size() / 2, 1, "#");          // garbled keyword
        else if (how == 1) s.erase(p);                                // cut right before it
        else s.replace(p, w.size(), "unknownword");                   // another word
        if (r.chance(0.5)) { putFile("/simfs/bad.tsg", s); g.read("/simfs/bad.tsg"); } else { std::istringstream is(s); g.read(is, mode_ascii); } });
    // same major version, later minor version (written by a newer release of the same series)
    add("read/future-minor-version-ascii", "runtime_error", true, any, [](TasmanianSparseGrid &g, Rng &r) { std::string s = validFile(false); size_t p = s.find("SG ") + 3, e = s.find_first_of(" \n", p); std::string v = s.substr(p, e - p); size_t dot = v.find('.');
        int major = atoi(v.substr(0, dot).c_str()), minor = dot == std::string::npos ? 0 : atoi(v.substr(dot + 1).c_str());
        s.replace(p, e - p, std::to_string(major) + "." + std::to_string(minor + 1 + (int)r.below(7))); putFile("/simfs/bad.tsg", s);
        if (r.chance(0.5)) g.read("/simfs/bad.tsg"); else { std::istringstream is(s); g.read(is, mode_ascii); } });
    add("read-stream/wrong-header", "runtime_error", true, any, [](TasmanianSparseGrid &g, Rng &r) { bool b = r.chance(0.5); std::string s = validFile(b); s[1] = 'X'; std::istringstream is(s); g.read(is, b); });
    add("write/unwritable-file", "runtime_error", false, nonEmpty, [](TasmanianSparseGrid &g, Rng &r) { simfs::fs().open_errno["/simfs/readonly/out.tsg"] = EACCES; g.write("/simfs/readonly/out.tsg", r.chance(0.5)); });
    return c;
}

struct Digest { Obs o; };
Obs digest(const TasmanianSparseGrid &g) {
    Obs o;
    if (g.empty()) { o.str("shape", "empty"); return o; }
    std::ostringstream m; m << familyName(g) << " d=" << g.getNumDimensions() << " outs=" << g.getNumOutputs() << " loaded=" << g.getNumLoaded() << " needed=" << g.getNumNeeded();
    o.str("shape", m.str());
    int outs = g.getNumOutputs();
    if (outs > 0) o.exact("loaded_points", g.getLoadedPoints()); else o.exact("loaded_points", {});
    o.exact("needed_points", g.getNeededPoints());
    o.exact("points", g.getPoints());
    if (outs > 0 && g.getNumLoaded() > 0) { const double *v = g.getLoadedValues(); o.exact("values", std::vector<double>(v, v + (size_t)g.getNumLoaded() * outs)); }
    if (outs > 0 && g.getNumLoaded() > 0) { std::vector<double> X = probePoints(g, 4), y; if (!X.empty()) { g.evaluateBatch(X, y); o.round("surrogate", y); } }
    return o;
}

class C14 : public Engine {
    std::vector<Clause> clauses = buildClauses();
public:
    const char *property() const override { return "C14"; }

    Json generate(Rng rng, const std::string &) override {
        Rng w = rng.fork("workload"), f = rng.fork("faults");
        Json p = Json::object();
        GenOpts go; go.max_points = 150; go.max_depth = 3;
        p["make"] = w.chance(0.06) ? Json() : genMake(w, go);   // sometimes start from the empty object
        int d = p["make"].isNull() ? 2 : (int)p["make"].geti("dims");
        Json ops = Json::array();
        int n = w.range(2, 10);
        for (int k = 0; k < n; k++) {
            if (f.chance(0.45)) {
                Json o = Json::object(); o["op"] = "fault"; o["pick"] = (long long)(f.next() >> 2); o["seed"] = (long long)(f.next() >> 2);
                ops.push(o);
            } else {
                Json o = genOp(w, d);
                // continuation operations pass explicit level limits (a failed call may legitimately have stored new ones)
                std::string k2 = o.gets("op");
                if ((k2 == "refine" || k2 == "update" || k2 == "cand_load") && o["limits"].size() == 0) { Json l = Json::array(); for (int q = 0; q < d; q++) l.push(Json(-1)); o["limits"] = l; }
                if (w.chance(0.08)) { o = Json::object(); o["op"] = "remake"; o["make"] = genMake(w, go); }
                ops.push(o);
            }
        }
        p["ops"] = ops;
        Json sh = Json::object(); sh["lists"] = Json::from(std::vector<std::string>{"ops"}); sh["ints"] = Json::from(std::vector<std::string>{"make.depth", "make.outs", "make.dims"});
        Json mn = Json::object(); mn["make.dims"] = 1; sh["min"] = mn; p["_shrink"] = sh;
        return p;
    }

    Outcome execute(const Json &p, Stats &st) override {
        Outcome out;
        simfs::FS &F = simfs::fs(); F.reset(); F.st = &st;
        TasmanianSparseGrid g, t;
        if (p.has("make") && !p.at("make").isNull()) { doMake(g, p.at("make")); doMake(t, p.at("make")); }
        int nfaults = 0; Hash sh;
        if (!p.has("ops")) return out;
        for (auto const &o : p.at("ops").a) {
            std::string k = o.gets("op");
            if (k == "remake") { doMake(g, o.at("make")); doMake(t, o.at("make")); continue; }
            if (k != "fault") {
                std::string s1 = applyOp(g, o), s2 = applyOp(t, o);
                st.inc("op." + k + "." + s1.substr(0, s1.find(':')));
                if (s1 != s2) { out.fail("unusable", "C14/after-fault/" + k + "/unusable", "valid operation " + k + " behaves differently after a rejected call: " + s1 + " vs twin " + s2); return out; }
                std::string sec; std::string df = diffObs(digest(g), digest(t), 1e-11, &sec);
                if (!df.empty()) { out.fail("unusable", "C14/after-fault/" + k + "/state-diverged:" + sec, "after valid operation " + k + " the grid differs from the un-faulted twin: " + df); return out; }
                continue;
            }
            // pick an applicable clause
            std::vector<size_t> app; for (size_t i = 0; i < clauses.size(); i++) if (clauses[i].applicable(g)) app.push_back(i);
            if (app.empty()) continue;
            const Clause &c = clauses[app[(size_t)(o.geti("pick", 0) % (int64_t)app.size())]];
            Rng r((uint64_t)o.geti("seed", 1));
            std::string fam = familyName(g), cls = stateClass(g);
            std::string base = std::string("C14/") + c.id + "/" + fam + "/" + cls + "/";
            sh.s(c.id); sh.s(fam); sh.s(cls);
            std::string got = "none", what;
            try { c.run(g, r); }
            catch (std::invalid_argument &e) { got = "invalid_argument"; what = e.what(); }
            catch (std::runtime_error &e) { got = "runtime_error"; what = e.what(); }
            catch (std::exception &e) { got = std::string("other:") + typeid(e).name(); what = e.what(); }
            catch (...) { got = "other:unknown"; }
            F.open_errno.clear();
            nfaults++;
            st.inc(std::string("fault.") + c.id);
            if (got == "none") { out.fail("no-exception", base + "no-exception", std::string("misuse '") + c.id + "' (documented std::" + c.documented + ") raised no exception"); return out; }
            if (got.rfind("other:", 0) == 0) { out.fail("other-type", base + "other-type:" + got.substr(6), std::string("misuse '") + c.id + "' raised " + got.substr(6) + ": " + what); return out; }
            if (got != c.documented) st.inc("note.raised_the_other_documented_type"); else st.inc("note.raised_documented_type");
            if (g.getLevelLimits() != t.getLevelLimits()) st.inc("note.level_limits_changed_by_failed_call");
            // post-condition
            if (g.empty() && !t.empty()) {
                if (!c.may_empty) { out.fail("state-changed", base + "state-changed:emptied", std::string("after the rejected '") + c.id + "' the grid is empty"); return out; }
                t = TasmanianSparseGrid(); st.inc("reach.emptied_by_failed_make_or_read");
            } else {
                std::string sec; std::string df = diffObs(digest(g), digest(t), 1e-11, &sec);
                if (!df.empty()) { out.fail("state-changed", base + "state-changed:" + sec, std::string("after the rejected '") + c.id + "' (" + what + "): " + df); return out; }
            }
            if (!F.fds.empty()) { out.fail("descriptor-leak", base + "descriptor-leak", "a file is left open after the rejected call"); return out; }
            // "fully usable": the object can still be written and read back (a seeded third of the faults)
            if (!g.empty() && r.chance(0.35)) {
                bool bin = r.chance(0.5);
                try {
                    std::stringstream ss; g.write(ss, bin);
                    TasmanianSparseGrid back; back.read(ss, bin);
                    std::string sec; std::string df = diffObs(digest(back), digest(g), 1e-11, &sec);
                    if (!df.empty()) { out.fail("unusable", base + "unusable:write-read-differs", std::string("after the rejected '") + c.id + "' the grid written and read back differs: " + df); return out; }
                    st.inc("reach.round_trip_after_rejected_call");
                } catch (std::exception &e) {
                    out.fail("unusable", base + "unusable:write-read", std::string("after the rejected '") + c.id + "' the grid cannot be written and read back: " + e.what()); return out;
                }
            }
        }
        out.trace.u64(digest(g).hash()); out.trace.i(nfaults);
        out.shape = sh.h ^ mix64(shapeKey(g)); out.nontrivial = nfaults > 0;
        return out;
    }
};

} // namespace

int main(int argc, char **argv) { C14 e; return engine_main(argc, argv, e); }
