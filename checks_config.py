"""Per-property configuration of the simulation checks (read by ./check)."""
DEFAULT_SEED = 20261004

REAL_COMMON = ["all TASMANIAN code compiled from /repo's working tree", "libstdc++", "libc"]

CHECKS = {
    "C15": {
        "id": "C15", "engine": "envsim", "flavour": "asan", "binary": "build/asan/c15", "level": "exploration",
        "tiers": {"quick": {"runs": 1200000, "batch": 2500, "wall_cap": 300}, "thorough": {"runs": 12000000, "batch": 5000, "wall_cap": 1500}},
        "rule": "one case = one seeded environment (chains, dims, form, pdf kind, domain kind, update rule, differential weight, "
                "burn/collect lengths, split point, endpoint-draw injections attached to draw kinds; optionally the C interface tsgDreamSample, a probability composed by TasDREAM::posterior(), a failing probability callback at the first evaluation followed by a retry); executed as a single run, as "
                "two consecutive runs, and with a re-seeded (setState, optionally clearHistory) second run on the same state object; distinct = distinct (configuration shape, injection list); non-trivial = at least one iteration",
        "components": {"real": ["TasDREAM::SampleDREAM (both forms, both overloads)", "TasmanianDREAM state", "tsgDreamCoreRandom updates"] ,
                       "simulated": ["random-number source (seeded stream + injected 0.0/1.0 endpoint draws)", "probability function (incl. a failing call)", "domain test", "independent update (user kinds)", "differential weight", "the caller's life cycle of the state object (split runs, setState, clearHistory, retry)"]},
        "expect_probes": ["reach.k_clamped", "reach.j_clamped", "reach.tie", "reach.nan_ratio", "reach.all_proposals_outside", "reach.accept_ratio", "reach.reject_ratio", "reach.reject_outside"],
        "assumptions": ["the generator returns values in [0,1]; the pdf does not resize its output", "ASan/UBSan instrumentation reports every out-of-range access of chain data"],
        "determinism_runs": 3000,
    },
}

CHECKS["C20"] = {
    "id": "C20", "engine": "envsim", "flavour": "asan", "binary": "build/asan/c20", "level": "exploration",
    "tiers": {"quick": {"runs": 1500000, "batch": 2500, "wall_cap": 300}, "thorough": {"runs": 12000000, "batch": 5000, "wall_cap": 1500}},
    "rule": "one case = one seeded environment (particles, dims, objective kind, domain kind, coefficients, initialisation, endpoint-draw injections) "
            "and a plan of 1-4 ParticleSwarm calls separated by state edits (none, clearCache, clearBestParticles, both, manual positions/bests + clearCache, "
            "manual positions/bests without clearCache, manual velocities), an objective that fails at its n-th call (the caller catches and carries on) or that runs an inner swarm (re-entrancy); calls separated by 'none' are also executed merged (n then m vs n+m); distinct = distinct (configuration shape, call/edit plan, injections)",
    "components": {"real": ["TasOptimization::ParticleSwarm", "ParticleSwarmState (all setters, clearCache, clearBestParticles, initializeParticlesInsideBox)"],
                   "simulated": ["random-number source (seeded stream + injected 0.0/1.0 draws)", "objective function (incl. failing and re-entrant calls)", "domain test", "the caller's sequence of calls and state edits"]},
    "expect_probes": ["reach.best_reevaluated", "reach.particle_never_inside", "reach.swarm_never_inside", "reach.placeholder_best_reevaluated"],
    "assumptions": ["objective and domain are pure functions; manual bests are self-consistent (swarm strip = best in-domain personal best)",
                    "cached objective values are private: they are checked through the positions they select, not read directly"],
    "determinism_runs": 3000,
}

CHECKS["C06"] = {
    "id": "C06", "engine": "persist", "flavour": "asan", "binary": "build/asan/c06", "level": "exploration",
    "tiers": {"quick": {"runs": 250000, "batch": 250, "wall_cap": 300}, "thorough": {"runs": 3000000, "batch": 500, "wall_cap": 2400}},
    "rule": "one case = a seeded grid configuration (family, rule, dims, outputs, depth, type, weights, limits, transforms) + a seeded history of 0-8 operations "
            "(load, overwriting reload, surplus/anisotropic refinement, update, merge, clear, setHierarchicalCoefficients, begin/candidates+loadConstructedPoints/finish, "
            "copy, transforms, removePoints) + format x entry point + medium faults + 1-4 continuation operations; distinct = distinct (grid state shape incl. point set, format, entry)",
    "components": {"real": ["TasmanianSparseGrid write/read (binary, ASCII; stream and file entry points) and every per-family reader/writer", "libstdc++ iostreams and basic_filebuf"],
                   "simulated": ["file system under /simfs/ (fopen64/read/write/writev/lseek/fclose interposed): short reads, short writes, EINTR", "stream medium delivering/accepting 1..k byte chunks"]},
    "expect_probes": ["reach.written_during_construction", "reach.written_with_pending_refinement", "reach.zero_outputs", "reach.overwriting_reload"],
    "assumptions": ["derived numerics compared to 1e-11 relative to the section's scale; stored data bit-for-bit",
                    "histories respect documented preconditions (see sim/tsg_common.hpp applyOp): no clearRefinement on never-loaded grids, construction without conformal maps, anisotropic refinement without level limits, full-range copies while constructing"],
    "determinism_runs": 1500, "exec_timeout": 120, "batch_timeout": 600,
}

CHECKS["C06"].update({
    "level_text": "seeded exploration of grid histories written and read through a simulated medium (chunked streams; simulated file system with short reads/writes and EINTR), "
                  "with an observational-equality oracle, byte-identical re-write, binary/ASCII agreement and a seeded continuation of the history applied to original and restored grid",
    "level_note": "samples histories and medium behaviours; a clean batch is evidence, not proof. Trusted: the observe() digest (public getters only), ASan/UBSan; the medium faults mostly exercise libstdc++, "
                  "the detecting power against TASMANIAN changes comes from the histories and the continuation oracle",
    "technique": "deterministic simulation of the persistence medium (simulated file system and chunked streams with benign I/O faults) over seeded operation histories, checked against the un-serialised twin",
})

CHECKS["C09"] = {
    "id": "C09", "engine": "deliver", "flavour": "asan", "binary": "build/asan/c09", "level": "exploration",
    "tiers": {"quick": {"runs": 400000, "batch": 1000, "wall_cap": 420}, "thorough": {"runs": 4000000, "batch": 2000, "wall_cap": 2400}},
    "rule": "one case = a seeded grid configuration (Global nested rules, Sequence, LocalPolynomial all rules/orders, Wavelet, Fourier; 1-3 dims; 1-2 outputs; limits; domain transform), "
            "a target set (points of a second grid of the same family with other depth/type/weights, united with the start grid), start fresh or loaded, "
            "optionally thinned to a sparse (not parent-closed) set, and a delivery schedule: permutation (shuffle/sorted/reverse), batch partition, and interleaved candidate queries, write/read, copies (whole or an output sub-range) of the half-built grid and redundant beginConstruction() calls; "
            "distinct = distinct (start state shape, number of samples, order, schedule); non-trivial = at least 2 samples",
    "components": {"real": ["beginConstruction / getCandidateConstructionPoints / loadConstructedPoints (single and batch paths) / finishConstruction of all five families", "grid write/read/copy"],
                   "simulated": ["the sample channel between model workers and the grid: arrival order, batching, delay relative to candidate queries, checkpoint/restore and copies (no loss, no duplication)", "model values (injective function of point and output)"]},
    "expect_probes": ["reach.samples_parked", "reach.delivery_promoted_points", "reach.delivery_between_candidate_queries"],
    "assumptions": ["surrogate and coefficients compared with the one-batch twin to 1e-9 relative (incremental surplus updates and iterative wavelet solves differ in the last digits); stored values bit-for-bit",
                    "construction is driven without conformal maps"],
    "level_text": "seeded exploration of delivery schedules (reordering, batching, interleaving with candidate queries / checkpoint-restore / copies) of a target sample set, "
                  "with per-delivery invariants and comparison against a twin loaded in one batch",
    "level_note": "samples permutations and batchings; a clean batch is evidence, not proof. Trusted: the one-batch path as reference together with the coordinate->value map, ASan/UBSan",
    "technique": "deterministic simulation of the sample-delivery channel (seeded reordering/batching/interleaving) with invariants after every delivery and a one-batch reference twin",
    "determinism_runs": 1500, "exec_timeout": 120, "batch_timeout": 600,
}

CHECKS["C14"] = {
    "id": "C14", "engine": "misuse", "flavour": "asan", "binary": "build/asan/c14", "level": "exploration",
    "tiers": {"quick": {"runs": 600000, "batch": 1500, "wall_cap": 420}, "thorough": {"runs": 6000000, "batch": 3000, "wall_cap": 2400}},
    "rule": "one case = a seeded grid (or the empty object) + a seeded valid history (as in C06) in which documented misuses are injected at seeded positions on G only; "
            "each misuse is drawn from the table of throws-clauses applicable in the current state (sizes, ranges, wrong family, empty grid, out-of-order calls, no-GPU calls, "
            "unreadable / non-Tasmanian / damaged files through the simulated file system); after a third of the rejected calls the object is written and read back; distinct = distinct (sequence of (clause, family, state class), final state shape); non-trivial = at least one misuse issued",
    "components": {"real": ["every public TasmanianSparseGrid method with a documented throws-clause", "readers of both formats", "libstdc++ iostreams"],
                   "simulated": ["the misbehaving caller (misuse injected at an arbitrary point of a history)", "file system under /simfs/: ENOENT, EACCES, zero-length file, wrong header, unknown grid type, future version"]},
    "expect_probes": ["reach.emptied_by_failed_make_or_read", "note.raised_documented_type"],
    "assumptions": ["either of std::invalid_argument / std::runtime_error is accepted (the statement names the set); stored level limits are not part of the compared state (a failed call may store them; points, values and surrogate do not change)",
                    "truncated or bit-flipped bodies of otherwise valid files are not injected (not in a throws-clause)"],
    "level_text": "seeded exploration of histories with injected documented misuses and I/O faults, checked against an un-faulted twin: exception type, unchanged points/values/surrogate (or empty after failed make/read), "
                  "continued usability, no crash or sanitizer report",
    "level_note": "table-driven: covers the throws-clauses listed in engines/c14.cpp (about 100 clause variants), each in the states the seeded histories reach; a clean batch is evidence, not proof. Trusted: ASan/UBSan, the twin",
    "technique": "deterministic simulation with fault injection where the fault is the documented misuse or the unreadable/non-Tasmanian file (simulated file system), injected into seeded histories and judged against an un-faulted twin",
    "determinism_runs": 2000, "exec_timeout": 120, "batch_timeout": 600,
}

CHECKS["C17"] = {
    "id": "C17", "engine": "simfs+crash", "flavour": "asan", "binary": "build/asan/c17", "level": "fault_enumeration",
    "tiers": {"quick": {"runs": 9000, "batch": 150, "wall_cap": 420}, "thorough": {"runs": 60000, "batch": 10, "wall_cap": 1500}},
    "rule": "one case = a seeded workload (family, rule, dims, outputs, budget, batch, tolerance/criteria or anisotropic type/weights, initial guess) run by sequential constructSurrogate with a checkpoint file "
            "on the simulated file system, killed 0-3 times (process-kill model: completed writes survive, the in-flight write is torn at a byte offset, user-space buffers are lost) and restarted with a "
            "fresh grid of a different rule; 'sweep' cases enumerate EVERY kill point of the first process (every event boundary; offsets 1, middle, len-1 and a seeded one inside each write), optionally "
            "crossed with the first kill points of the restart; distinct = distinct (workload, kill phases/events/tears)",
    "components": {"real": ["TasGrid::constructCommon (sequential mode) incl. checkpoint/recovery protocol", "CandidateManager, CompleteStorage", "grid write/read, libstdc++ basic_filebuf"],
                   "simulated": ["file system under /simfs/ with process-kill crash model (freeze of the durable image at an event / torn write)", "process death and restart", "model callback (injective values, logged)"]},
    "expect_probes": ["reach.recovered_from_last_completed", "reach.backup_file_exists_at_kill", "reach.torn_write", "reach.kill_after_last_byte_before_close", "reach.restart_from_scratch_nothing_completed", "sweep.workloads"],
    "assumptions": ["process-kill crash model (no power loss: completed write() calls survive in order); no ENOSPC/EIO",
                    "samples parked inside the grid's construction data are not visible through the API and are left out of the re-computation oracle",
                    "with fewer than 1000 loaded points the stored-samples tail of a checkpoint is empty (eager loading); the tail path is exercised only through torn-read handling"],
    "level_text": "fault enumeration inside seeded workloads: sampled kill points in most cases and, in sweep cases, every kill point of the first process (with torn-write offsets), each followed by restart(s) and checked for "
                  "recovery source/integrity, bounded re-computation and completion",
    "level_note": "workloads are seeded, kill points of a sweep are exhaustive for that workload's first process; sequential mode only in this engine (parallel mode: see C18 engine for the thread protocol). Trusted: the engine's decoding of checkpoints through the public reader, ASan/UBSan",
    "technique": "deterministic crash/restart simulation on a simulated file system (process-kill model with torn writes), with enumeration of all kill points per seeded workload and history oracles for recovery, re-computation and completion",
    "determinism_runs": 600, "exec_timeout": 300, "batch_timeout": 900, "minimise_s": 120,
}

SIM_COMPONENTS_SIMULATED = ["thread scheduler: every std::thread / std::mutex / condition_variable operation is an interposed scheduling point decided by one seeded stream (random walk, PCT, round-robin, starvation, run-to-block)",
                            "pre-emption at instrumented memory accesses (g++ -fsanitize=thread hooks, linked without libtsan)", "discrete-event clock (nanosleep/clock_gettime interposed)",
                            "spurious condition-variable wake-ups, adversarial notify_one target", "model callback (injective values, latency on the simulated clock, every call logged with the global event sequence number)"]

CHECKS["C18"] = {
    "id": "C18", "engine": "sched+sync+race", "flavour": "thr", "binary": "build/thr/c18", "level": "exploration",
    "tiers": {"quick": {"runs": 60000, "batch": 250, "wall_cap": 300}, "thorough": {"runs": 3000000, "batch": 500, "wall_cap": 2400}},
    "rule": "one case = a seeded workload (parallel constructSurrogate: family, rule, dims, outputs, jobs 1-6, batch 1-3, budget 1-35 incl. below the job count, tolerance/criteria or anisotropic type/weights, "
            "level limits, initial guess, optionally a pre-loaded grid, public overload or constructCommon; or threaded loadNeededValues: 0-6 threads, overwrite or not, array or vector overload, fresh/loaded/refined grid) "
            "+ a latency model (zero, uniform, heavy-tailed, one slow worker, equal) + one seeded schedule (strategy, pre-emption rate, spurious wake-ups, notify target); "
            "distinct = distinct (workload shape, synchronisation-event interleaving); distinct_interleavings = distinct hashes of the sequence of synchronisation events (who ran, on which object, who was chosen next)",
    "components": {"real": ["TasGrid::constructCommon<mode_parallel> (worker protocol, main loop, CandidateManager, CompleteStorage)", "TasGrid::loadNeededValues<mode_parallel> (work queue)", "the grids' dynamic construction",
                            "libstdc++ std::thread / std::mutex / std::condition_variable wrappers (their pthread calls are interposed)"],
                   "simulated": SIM_COMPONENTS_SIMULATED, "stub": ["libpthread synchronisation and sleep/clock entry points (replaced by the scheduler for simulation tasks)"]},
    "expect_probes": ["reach.budget_below_jobs", "reach.candidates_exhausted_or_tolerance_reached", "reach.budget_reached", "reach.two_model_calls_overlap", "reach.candidate_refresh_while_jobs_running",
                      "reach.load_compared_with_sequential", "reach.more_threads_than_points", "fault.spurious_wakeup", "fault.preemption_at_memory_access", "fault.clock_jump_to_timer"],
    "assumptions": ["the model is thread-safe and returns the documented number of values", "uninstrumented code (libstdc++.so internals) is invisible to the race detector: possible misses, no false alarms; memcpy/memmove/memset are interposed as range events",
                    "deadlock, step-cap and internal errors end the worker process (SIM-FATAL) and are re-executed from the plan in a fresh process"],
    "level_text": "seeded exploration of thread schedules (all pthread synchronisation points and a seeded subset of memory accesses are scheduling points) and model latencies, with the statement's clauses checked over the "
                  "model-call log, the final grid, the scheduler (termination within a step cap, deadlock) and a happens-before race detector over every instrumented access",
    "level_note": "samples schedules; a clean batch is evidence, not proof. Race detection is happens-before based: a race between two executed accesses is reported in every schedule that executes both. Trusted: the interposition layer (sim/simrt.cpp), the model log",
    "technique": "deterministic simulation of threads (real threads, one runs at a time, seeded scheduler at every interposed pthread operation and at instrumented memory accesses; simulated clock; spurious wake-ups) "
                 "with a happens-before race detector and history oracles over the model-call log",
    "determinism_runs": 600, "exec_timeout": 120, "batch_timeout": 600, "minimise_s": 90,
}

CHECKS["C12"] = {
    "id": "C12", "engine": "sched+race", "flavour": "thr", "binary": "build/thr/c12", "level": "exploration",
    "tiers": {"quick": {"runs": 200000, "batch": 250, "wall_cap": 300}, "thorough": {"runs": 1500000, "batch": 500, "wall_cap": 2400}},
    "rule": "one case = a seeded grid (all five families; wavelets over-sampled because they hold the only mutable CPU-side cache; 0-2 outputs; fresh, loaded, refined, merged, constructing, coefficient-set states via a seeded history; "
            "optionally written and read back first) shared as const reference by 2-4 caller tasks that each issue 1-3 const calls from a menu of 25 (evaluate, evaluateBatch double/float, interpolation / quadrature / "
            "differentiation weights, integrate, differentiate, dense and sparse hierarchical functions, support, integrals, coefficients, points, values, polynomial space, anisotropic coefficients, write binary/ASCII, "
            "printStats, copy construction, refinement of a private copy, the whole observe() digest) + one seeded schedule with pre-emption at instrumented memory accesses; distinct = distinct (grid state shape, call lists); "
            "distinct_interleavings = distinct schedule traces",
    "components": {"real": ["every const member function of TasmanianSparseGrid in the call menu and the per-family code below it", "libstdc++ std::thread (its pthread calls are interposed)"],
                   "simulated": ["caller threads: real threads of which exactly one runs at a time; a seeded scheduler (random walk, PCT, round-robin, starvation, run-to-block) decides at thread create/exit/join and at a seeded subset of instrumented memory accesses",
                                 "happens-before race detector over every instrumented load and store (g++ -fsanitize=thread hooks, linked without libtsan), memcpy/memmove/memset as range events, operator new/delete with quarantine"],
                   "stub": ["libpthread create/join (replaced by the scheduler for simulation tasks)"]},
    "expect_probes": ["reach.wavelet_weight_query_concurrent", "reach.grid_read_from_stream", "fault.preemption_at_memory_access", "call.observe", "call.interpolationWeights", "call.writeBinary", "call.copy"],
    "assumptions": ["calls are issued only in states where the documentation allows them (surrogate calls on loaded grids, nothing but getters and write on a grid without points)",
                    "uninstrumented code (libstdc++.so internals) is invisible to the race detector: possible misses, no false alarms",
                    "each call's concurrent result is compared bit-for-bit with the same call executed alone on a copy of the grid"],
    "level_text": "seeded exploration of caller-thread interleavings at memory-access granularity over seeded grid states and const-call multisets, with a happens-before race detector over every instrumented access, "
                  "bit-identical results against the calls run alone, unchanged serialised state, and crash / use-after-free detection",
    "level_note": "samples grid states, call multisets and schedules; a clean batch is evidence, not proof. Race detection is happens-before based: a race between two executed accesses is reported in every schedule that executes both, "
                  "so the search is needed for reaching the code paths and for the result oracle. Trusted: the interposition layer and detector (sim/simrt.cpp)",
    "technique": "deterministic simulation of caller threads (real threads, one runs at a time, seeded scheduler with pre-emption at instrumented memory accesses) with a happens-before race detector and a run-alone reference for every call",
    "determinism_runs": 1500, "exec_timeout": 120, "batch_timeout": 600, "minimise_s": 60,
    "fresh_process_every": 4,   # a new engine process every 4 batches: process-wide lazily initialised state meets the callers cold again
}

CHECKS["C13"] = {
    "id": "C13", "engine": "simgomp+sched+race", "flavour": "omp", "binary": "build/omp/c13", "level": "exploration",
    "tiers": {"quick": {"runs": 40000, "batch": 100, "wall_cap": 300}, "thorough": {"runs": 600000, "batch": 200, "wall_cap": 2400}},
    "rule": "one case = a seeded grid configuration (all five families and all rule kinds incl. optimised sequences and custom tables, 1-3 dims, 0-2 outputs, transforms, limits) + a scripted history of 0-7 operations "
            "(load, refinement by all strategies, update, merge, clear, coefficients, dynamic construction, copies, transforms) with an observation after every step + extra parallel paths (sparse/dense hierarchical functions, "
            "anisotropic coefficients, polynomial space, weights) + optionally a ParticleSwarm run; executed once by the serial reference build and once by the OpenMP build under the simulated libgomp with a seeded team size "
            "(1,2,3,4,8), chunk hand-out order of dynamic loops, critical-section order and thread interleaving incl. pre-emption at instrumented memory accesses; distinct = distinct (history shape, team size); "
            "distinct_interleavings = distinct hashes of the synchronisation-event sequence (fork, chunk requests, criticals, barriers, joins)",
    "components": {"real": ["the whole library compiled with -fopenmp: every '#pragma omp' region incl. the _OPENMP-only branches (never compiled by the pinned build)", "the same library compiled without OpenMP (reference; namespaces renamed to share the executable)"],
                   "simulated": ["libgomp: GOMP_parallel, GOMP_barrier, GOMP_critical(_name)_start/end, GOMP_loop_nonmonotonic_dynamic_start/next, GOMP_loop_end(_nowait), omp_get_thread_num/num_threads implemented over the seeded scheduler (team members are real threads of which one runs at a time)",
                                 "happens-before race detector over every instrumented access with fork/join, barrier, critical and atomic edges"],
                   "stub": ["libgomp is not linked"]},
    "expect_probes": ["sim.parallel_regions", "sim.dynamic_chunks", "fault.preemption_at_memory_access", "fault.chunks_handed_out_in_seeded_order", "fault.team_size.8", "fault.team_size.1"],
    "assumptions": ["stored data, point sets and orders, index arrays: bit-for-bit; derived numerics to 1e-11 relative to the section's scale (bit-identity is recorded as a statistic)",
                    "chunks of schedule(dynamic) loops may be handed out in any order (legal for nonmonotonic dynamic schedules, which is what gcc emits); half of the runs use ascending hand-out",
                    "nested parallel regions run with a team of one (libgomp's default)"],
    "level_text": "seeded exploration of OpenMP executions (team size, chunk hand-out, critical-section order, interleavings with pre-emption at memory accesses) of scripted histories under a simulated libgomp, compared with the serial "
                  "reference build step by step (structure exact, numerics to rounding), with a happens-before race detector inside every parallel region and deadlock detection",
    "level_note": "samples histories and schedules; a clean batch is evidence, not proof. Race detection is happens-before based (a missing critical or a shared scratch buffer is reported in any schedule that executes both accesses). "
                  "Trusted: the simulated libgomp (sim/simrt_gomp.inc) implements the OpenMP semantics of the constructs the library uses",
    "technique": "deterministic simulation of the OpenMP runtime (own libgomp ABI over a seeded scheduler of real threads, one running at a time) with a happens-before race detector, checked step by step against the serial build of the same history",
    "determinism_runs": 600, "exec_timeout": 300, "batch_timeout": 900, "minimise_s": 120,
}

# C17 has two engine binaries: sequential mode under ASan/UBSan, parallel mode under the thread simulator (sim/simrt)
CHECKS["C17"]["phases"] = [{"name": "seq", "binary": "build/asan/c17", "share": 0.8, "flavour": "asan"},
                           {"name": "par", "binary": "build/thr/c17p", "share": 0.2, "flavour": "thr", "batch": 40}]
CHECKS["C17"]["engine"] = "simfs+crash(+sched)"
CHECKS["C17"]["components"]["real"].append("TasGrid::constructCommon (parallel mode: worker threads, mutex/condition-variable protocol) in the 'par' phase")
CHECKS["C17"]["components"]["simulated"].append("'par' phase: thread scheduler of sim/simrt (seeded interleavings, spurious wake-ups, model latency on the simulated clock); the kill instant is an event of that schedule")
CHECKS["C17"]["level_note"] = ("workloads are seeded, kill points of a sweep are exhaustive for that workload's first process; 80% of the runs are sequential mode under ASan/UBSan, 20% parallel mode under the thread simulator "
                               "(kills fall while workers hold samples). Trusted: the engine's decoding of checkpoints through the public reader, ASan/UBSan (seq phase)")
CHECKS["C17"]["expect_probes"] += ["reach.large_start_grid_runs", "reach.restart_after_checkpoint_with_stored_samples"]
