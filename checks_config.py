"""Per-property configuration of the simulation checks (read by ./check)."""
DEFAULT_SEED = 20261004

REAL_COMMON = ["all TASMANIAN code compiled from /repo's working tree", "libstdc++", "libc"]

CHECKS = {
    "C15": {
        "id": "C15", "engine": "envsim", "flavour": "asan", "binary": "build/asan/c15", "level": "exploration",
        "tiers": {"quick": {"runs": 120000, "batch": 1500, "wall_cap": 300}, "thorough": {"runs": 4000000, "batch": 5000, "wall_cap": 1500}},
        "rule": "one case = one seeded environment (chains, dims, form, pdf kind, domain kind, update rule, differential weight, "
                "burn/collect lengths, split point, endpoint-draw injections attached to draw kinds); executed as a single run and as "
                "two consecutive runs; distinct = distinct (configuration shape, injection list); non-trivial = at least one iteration",
        "components": {"real": ["TasDREAM::SampleDREAM (both forms, both overloads)", "TasmanianDREAM state", "tsgDreamCoreRandom updates"] ,
                       "simulated": ["random-number source (seeded stream + injected 0.0/1.0 endpoint draws)", "probability function", "domain test", "independent update (user kinds)", "differential weight"]},
        "expect_probes": ["reach.k_clamped", "reach.j_clamped", "reach.tie", "reach.nan_ratio", "reach.all_proposals_outside", "reach.accept_ratio", "reach.reject_ratio", "reach.reject_outside"],
        "assumptions": ["the generator returns values in [0,1]; the pdf does not resize its output", "ASan/UBSan instrumentation reports every out-of-range access of chain data"],
        "determinism_runs": 3000,
    },
}
