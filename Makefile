# Builds the simulator engines and four flavours of the TASMANIAN objects from /repo's
# CURRENT WORKING TREE (dependency tracked with -MMD, so edits under /repo are picked up).
REPO ?= /repo
B    := build
CXX  := g++
GUARD := -DMKSTOYANOV_TASMANIAN_VERIF

TSG_SRC := $(filter-out %Cuda% %Hip% %Dpcpp% %gridtest% %tasgrid%, $(wildcard $(REPO)/SparseGrids/tsg*.cpp)) \
           $(REPO)/SparseGrids/TasmanianSparseGrid.cpp $(REPO)/SparseGrids/TasmanianSparseGridWrapC.cpp \
           $(REPO)/InterfaceTPL/tsgGpuNull.cpp \
           $(REPO)/DREAM/tsgDreamState.cpp $(REPO)/DREAM/tsgDreamLikelyGaussian.cpp $(REPO)/DREAM/tsgDreamSampleWrapC.cpp \
           $(REPO)/DREAM/Optimization/tsgParticleSwarm.cpp $(REPO)/DREAM/Optimization/tsgGradientDescent.cpp \
           $(REPO)/DREAM/Optimization/TasmanianOptimizationWrapC.cpp
TSG_SRC := $(filter-out %tsgCudaKernels.cu %tsgHipKernels.hip.cpp %tsgDpcppKernels.cpp, $(TSG_SRC))

INC := -I$(B)/config -I$(REPO)/SparseGrids -I$(REPO)/DREAM -I$(REPO)/DREAM/Optimization -I$(REPO)/InterfaceTPL -I$(REPO)/Addons -I$(REPO)/Config

FLAGS_asan := -O1 -g -fno-omit-frame-pointer -fsanitize=address,undefined -fno-sanitize=null,nonnull-attribute,returns-nonnull-attribute -fno-sanitize-recover=undefined
FLAGS_thr  := -O1 -g -fno-omit-frame-pointer -fsanitize=thread
FLAGS_omp  := -O1 -g -fno-omit-frame-pointer -fopenmp -fsanitize=thread
FLAGS_ref  := -O1 -g
LINK_asan  := -fsanitize=address,undefined
LINK_thr   :=
LINK_omp   :=
LINK_ref   :=

# 'refns': the serial reference build with the library namespaces renamed, so that it can be linked into the same executable
# as the OpenMP build (C13 compares the two in one process); C wrappers and the extern "C" DREAM files are left out
NSREN := -DTasGrid=TasGridRef -DTasDREAM=TasDREAMRef -DTasOptimization=TasOptimizationRef -Dtsgsim=tsgsimRef
FLAGS_refns := -O1 -g $(NSREN)
TSG_SRC_refns := $(filter-out %WrapC.cpp %tsgDreamState.cpp %tsgDreamLikelyGaussian.cpp, $(TSG_SRC))
FLAVOURS := asan thr omp ref

objname = $(B)/$(1)/tsg/$(subst /,_,$(patsubst $(REPO)/%.cpp,%,$(2))).o

define FLAVOUR_RULES
TSG_OBJ_$(1) := $$(foreach s,$$(TSG_SRC),$$(call objname,$(1),$$(s)))
$(B)/$(1)/libtsg.a: $$(TSG_OBJ_$(1))
	@rm -f $$@
	@ar rcs $$@ $$^
endef
$(foreach f,$(FLAVOURS),$(eval $(call FLAVOUR_RULES,$(f))))

define OBJ_RULE
$(call objname,$(1),$(2)): $(2) $(B)/config/TasmanianConfig.hpp
	@mkdir -p $$(dir $$@)
	$(CXX) -std=c++11 $(GUARD) $$(FLAGS_$(1)) $(INC) -MMD -MP -c $$< -o $$@
endef
$(foreach f,$(FLAVOURS),$(foreach s,$(TSG_SRC),$(eval $(call OBJ_RULE,$(f),$(s)))))
$(foreach s,$(TSG_SRC_refns),$(eval $(call OBJ_RULE,refns,$(s))))
$(B)/refns/libtsg.a: $(foreach s,$(TSG_SRC_refns),$(call objname,refns,$(s)))
	@rm -f $@
	@ar rcs $@ $^

$(B)/config/TasmanianConfig.hpp: $(REPO)/Config/TasmanianConfig.in.hpp
	@mkdir -p $(B)/config
	sed -e 's/@Tasmanian_VERSION_MAJOR@/8/; s/@Tasmanian_VERSION_MINOR@/2/; s/@Tasmanian_VERSION_MAJOR@\.@Tasmanian_VERSION_MINOR@@Tasmanian_version_comment@/8.2 (verif)/' \
	    -e 's/@Tasmanian_VERSION_MAJOR@/8/g; s/@Tasmanian_VERSION_MINOR@/2/g; s/@Tasmanian_version_comment@/ (verif)/g' \
	    -e 's/@Tasmanian_license@/BSD 3-Clause with UT-Battelle disclaimer/; s/@Tasmanian_git_hash@/verif/; s/@Tasmanian_cxx_flags@/verif/' \
	    -e 's/^#cmakedefine \(.*\)/\/* #undef \1 *\//' $< > $@

# ---- engines: $(B)/<flavour>/<name> from engines/<name>.cpp --------------------------------
SIMHDR := $(wildcard sim/*.hpp)
define ENGINE_RULE
$(B)/$(2)/$(1): engines/$(1).cpp $(SIMHDR) $(B)/$(2)/libtsg.a $(3)
	@mkdir -p $(B)/$(2)
	$(CXX) -std=c++17 $(GUARD) $$(FLAGS_$(2)) $(INC) -I. -MMD -MP engines/$(1).cpp $(3) $(B)/$(2)/libtsg.a $$(LINK_$(2)) -lpthread -ldl -o $$@
endef

ENGINES_asan := c15 c20 c09 c06 c14 c17
$(foreach e,$(ENGINES_asan),$(eval $(call ENGINE_RULE,$(e),asan,)))

# the thread simulator runtime: never instrumented, no OpenMP
$(B)/simrt.o: sim/simrt.cpp sim/simrt.hpp sim/simrt_race.inc sim/simrt_gomp.inc
	@mkdir -p $(B)
	$(CXX) -std=c++17 -O2 -g -fno-omit-frame-pointer -fno-tree-loop-distribute-patterns -Wall -Wextra -c sim/simrt.cpp -o $@
LINK_thr := -no-pie
LINK_omp := -no-pie
# engines of the instrumented flavours: compiled with the hooks, linked WITHOUT libtsan / libgomp (simrt.o provides both ABIs)
define ENGINE_RULE_SIM
$(B)/$(2)/$(1).o: engines/$(1).cpp $(SIMHDR) $(B)/config/TasmanianConfig.hpp
	@mkdir -p $(B)/$(2)
	$(CXX) -std=c++17 $(GUARD) $$(FLAGS_$(2)) $(INC) -I. -MMD -MP -c engines/$(1).cpp -o $$@
$(B)/$(2)/$(1): $(B)/$(2)/$(1).o $(B)/$(2)/libtsg.a $(B)/simrt.o $(3)
	$(CXX) -g -no-pie $(B)/$(2)/$(1).o $(3) $(B)/$(2)/libtsg.a $(B)/simrt.o -lpthread -ldl -o $$@
endef
ENGINES_thr := c18 c12
$(foreach e,$(ENGINES_thr),$(eval $(call ENGINE_RULE_SIM,$(e),thr,)))
# C17 parallel mode: engines/c17.cpp compiled with -DC17_PARALLEL in the thr flavour
$(B)/thr/c17p.o: engines/c17.cpp $(SIMHDR) $(B)/config/TasmanianConfig.hpp
	@mkdir -p $(B)/thr
	$(CXX) -std=c++17 $(GUARD) -DC17_PARALLEL $(FLAGS_thr) $(INC) -I. -MMD -MP -c engines/c17.cpp -o $@
$(B)/thr/c17p: $(B)/thr/c17p.o $(B)/thr/libtsg.a $(B)/simrt.o
	$(CXX) -g -no-pie $(B)/thr/c17p.o $(B)/thr/libtsg.a $(B)/simrt.o -lpthread -ldl -o $@
# C13: OpenMP build under the simulated libgomp + renamed serial reference in the same executable
$(B)/refns/c13ref.o: engines/c13ref.cpp engines/c13_common.hpp $(SIMHDR) $(B)/config/TasmanianConfig.hpp
	@mkdir -p $(B)/refns
	$(CXX) -std=c++17 $(GUARD) $(FLAGS_refns) $(INC) -I. -MMD -MP -c engines/c13ref.cpp -o $@
$(eval $(call ENGINE_RULE_SIM,c13,omp,$(B)/refns/c13ref.o $(B)/refns/libtsg.a))
$(B)/omp/c13.o: engines/c13_common.hpp

.PHONY: all clean $(addprefix eng-,$(ENGINES_asan))
all: $(foreach e,$(ENGINES_asan),$(B)/asan/$(e)) $(foreach e,$(ENGINES_thr),$(B)/thr/$(e)) $(B)/thr/c17p $(B)/omp/c13
clean:
	rm -rf $(B)

-include $(wildcard $(B)/*/tsg/*.d) $(wildcard $(B)/*/*.d)
