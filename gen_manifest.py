#!/usr/bin/env python3
"""Writes MANIFEST.json from checks_config.py (claimed checks) and the not-applicable table."""
import json, os, sys
HERE = os.path.dirname(os.path.abspath(__file__))
sys.path.insert(0, HERE)
from checks_config import CHECKS

NOT_APPLICABLE = {
    "C01": "pure numerics of (grid configuration, history, values): no schedule, clock, I/O fault, delivery order, randomness or crash for a simulator to own (DESIGN §5)",
    "C02": "pure function of (rule, depth, type, weights, transform); nothing nondeterministic or fault-shaped in the statement (DESIGN §5)",
    "C03": "pure function of (configuration, x); no nondeterminism or fault dimension (DESIGN §5)",
    "C04": "algebraic identities on one deterministic single-threaded state; no I/O, schedule or fault (DESIGN §5)",
    "C05": "pure numerics (gradient of the surrogate); no nondeterminism or fault dimension (DESIGN §5)",
    "C07": "sequential operation history against a map model; deterministic, no environment to simulate (the same histories are used as workload by C06/C13/C14) (DESIGN §5)",
    "C08": "deterministic function of (limits, history); its termination clause concerns a deterministic loop, not progress after faults (DESIGN §5)",
    "C10": "pure numerics (change of variables); no nondeterminism or fault dimension (DESIGN §5)",
    "C11": "sequential object semantics (aliasing of copies); no concurrency or I/O in the statement (DESIGN §5)",
    "C16": "equivalence of two deterministic programs on the same script; the files between invocations are plain hand-over, no fault or schedule is quantified (DESIGN §5)",
    "C19": "deterministic function of (objective, projection, parameters, cap); no randomness, I/O or threads (DESIGN §5)",
}
PLANNED = {  # claimed by DESIGN.md, listed as not claimed until the check exists and passes
    "C06": "persist", "C09": "deliver", "C12": "sched+race", "C13": "simgomp+sched+race", "C14": "persist/misuse",
    "C17": "simfs+crash", "C18": "sched+sync+race+simclock",
}

TEXT = {
    "C15": ("seeded exploration of simulated environments (random stream with injected endpoint draws, pdf, domain, updates, run splitting) "
            "with the documented transition re-executed from the callback log; ASan/UBSan keep out-of-range chain accesses visible",
            "samples the environment space; a clean batch is evidence, not proof. Trusted: the harness's 60-line transition model, ASan"),
    "C20": ("seeded exploration of simulated environments (random stream, objective, domain, plans of calls and state edits) with the "
            "visited-set book-keeping checked over the callback log after every call and an n+m twin run",
            "samples the environment space; cached objective values are private and are checked through the bests they select"),
}
TECH = {
    "C15": "deterministic simulation of the sampler's environment (seeded random stream with injected endpoint faults, simulated callbacks) + reference transition model over the recorded call log",
    "C20": "deterministic simulation of the optimiser's environment (seeded random stream with injected endpoint faults, simulated objective/domain, seeded call/edit plans) + visited-set model over the recorded call log",
}
SECTION = {k: "DESIGN.md §4 " + k for k in ["C06", "C09", "C12", "C13", "C14", "C15", "C17", "C18", "C20"]}


def main():
    checks = []
    for pid in sorted(CHECKS):
        c = CHECKS[pid]
        text, note = c.get("level_text"), c.get("level_note")
        if text is None:
            text, note = TEXT[pid]
        checks.append({
            "property_id": pid,
            "quick_cmd": "./check %s --tier quick" % pid,
            "thorough_cmd": "./check %s --tier thorough" % pid,
            "evidence_file": "/verif/evidence/%s.json" % pid,
            "replay_cmd_template": "./check %s --replay {path}" % pid,
            "engine": c["engine"],
            "level_claimed": {"category": c["level"], "text": text, "design_ref": SECTION.get(pid, "DESIGN.md §4")},
            "level_note": note,
            "technique": c.get("technique") or TECH[pid],
        })
    na = [{"property_id": k, "reason": v} for k, v in sorted(NOT_APPLICABLE.items())]
    for k, eng in sorted(PLANNED.items()):
        if k not in CHECKS:
            na.append({"property_id": k, "reason": "not claimed yet: the %s check planned in DESIGN.md §4 is not built; will be claimed when it exists and passes on the tree" % eng})
    na.sort(key=lambda e: e["property_id"])
    engines = {}
    for pid, c in CHECKS.items():
        e = engines.setdefault(c["engine"], {"name": c["engine"], "path": "/verif/engines, /verif/sim", "serves_properties": [], "kind_free_text": c.get("engine_text", "deterministic simulation engine (C++), driven by /verif/check")})
        e["serves_properties"].append(pid)
    man = {
        "version": 1,
        "setup_cmd": "./check build",
        "hooks": {
            "guard": "MKSTOYANOV_TASMANIAN_VERIF",
            "enable": "checks compile /repo's sources themselves (Makefile) with -DMKSTOYANOV_TASMANIAN_VERIF; no guarded hook exists in /repo so far, all seams are link-time interposition",
            "baseline_off_cmd": "cmake --build /repo/_build && ctest --test-dir /repo/_build -j8 --timeout 900",
            "source_commits": [],
            "add_only": True,
        },
        "engines": sorted(engines.values(), key=lambda e: e["name"]),
        "checks": checks,
        "not_applicable": na,
        "notes": "Deterministic simulation with fault injection; see DESIGN.md. Genuine defects repaired in /repo by 'fix:' commits are listed in known_findings.json (status fixed); unrepaired ones have status known and print KNOWN-FINDING lines.",
    }
    for e in man["engines"]:
        e["serves_properties"].sort()
    with open(os.path.join(HERE, "MANIFEST.json"), "w") as f:
        json.dump(man, f, indent=1)
    print("MANIFEST.json: %d checks, %d not claimed" % (len(checks), len(na)))


if __name__ == "__main__":
    main()
