#!/usr/bin/env python3
"""Debug helper: run each index in chunks, in parallel, with a timeout; report chunks/indices that do not finish."""
import subprocess, json, sys, concurrent.futures as cf
binary, a, b = sys.argv[1], int(sys.argv[2]), int(sys.argv[3])
lim = float(sys.argv[4]) if len(sys.argv) > 4 else 10.0
seed = int(sys.argv[5]) if len(sys.argv) > 5 else 1
def run(lo, hi, t):
    cmd = json.dumps({"cmd": "batch", "seed": seed, "from": lo, "to": hi, "tier": "quick", "samples": 0}) + "\n"
    try:
        r = subprocess.run([binary], input=cmd, capture_output=True, text=True, timeout=t)
        return "batch_done" in r.stdout
    except subprocess.TimeoutExpired:
        return False
chunks = [(i, min(i + 20, b)) for i in range(a, b, 20)]
with cf.ThreadPoolExecutor(16) as ex:
    bad = [c for c, ok in zip(chunks, ex.map(lambda c: run(c[0], c[1], lim * 4), chunks)) if not ok]
    idx = [i for c in bad for i in range(c[0], c[1])]
    res = list(ex.map(lambda i: run(i, i + 1, lim), idx))
print("not finishing (hang or crash):", [i for i, ok in zip(idx, res) if not ok])
