#!/usr/bin/env python3
"""Debug helper: run indices one at a time and report slow / hanging / dying ones."""
import subprocess, json, sys, time, select
binary, a, b = sys.argv[1], int(sys.argv[2]), int(sys.argv[3])
lim = float(sys.argv[4]) if len(sys.argv) > 4 else 5.0
seed = int(sys.argv[5]) if len(sys.argv) > 5 else 1
i = a
while i < b:
    p = subprocess.Popen([binary], stdin=subprocess.PIPE, stdout=subprocess.PIPE, stderr=subprocess.DEVNULL, text=True)
    while i < b:
        t = time.time()
        p.stdin.write(json.dumps({"cmd": "batch", "seed": seed, "from": i, "to": i + 1, "tier": "quick", "samples": 0}) + "\n"); p.stdin.flush()
        done = False
        while True:
            r, _, _ = select.select([p.stdout], [], [], lim)
            if not r:
                print("SLOW/HANG index", i); p.kill(); done = True; break
            line = p.stdout.readline()
            if not line:
                print("DIED index", i); done = True; break
            if '"batch_done"' in line:
                break
        dt = time.time() - t
        if dt > 1.0:
            print("index", i, "took %.1fs" % dt)
        i += 1
        if done:
            break
