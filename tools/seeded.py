#!/usr/bin/env python3
"""Seeded-change bookkeeping.

  tools/seeded.py confirm <PROP> <out-dir> <worktree>   confirm every m<k> under out-dir in the scratch worktree:
        patch applies, builds, pinned suite passes, demo fails with the change and passes without; confirmed ones
        are copied to /verif/seeded/<PROP>-<tag>-m<k>/ (patch.diff, demo.cpp, demo.sh, meta.json)
  tools/seeded.py detect [names...] [--tier quick]      apply each seeded patch to /repo, run the property's check,
        undo the patch; records seeded/<name>/detect.json and prints a table
"""
import json, os, subprocess, sys, shutil, time, glob

HERE = os.path.dirname(os.path.dirname(os.path.abspath(__file__)))
SEEDED = os.path.join(HERE, "seeded")


def sh(cmd, cwd=None, timeout=3600):
    r = subprocess.run(cmd, shell=True, cwd=cwd, stdout=subprocess.PIPE, stderr=subprocess.STDOUT, text=True, timeout=timeout)
    return r.returncode, r.stdout


def confirm(prop, outdir, wt, tag):
    res = []
    for md in sorted(glob.glob(os.path.join(outdir, "m*"))):
        k = os.path.basename(md)
        patch = os.path.join(md, "patch.diff")
        rec = {"mutant": k, "ok": False}
        sh("git checkout -- .", cwd=wt)
        c, o = sh("git apply --check %s" % patch, cwd=wt)
        if c != 0:
            rec["why"] = "patch does not apply: " + o[-300:]; res.append(rec); continue
        sh("git apply %s" % patch, cwd=wt)
        c, o = sh("cmake --build _build -j6", cwd=wt)
        if c != 0:
            rec["why"] = "does not build"; sh("git checkout -- .", cwd=wt); res.append(rec); continue
        c, o = sh("ctest --test-dir _build -j6 --timeout 900", cwd=wt)
        rec["ctest_with_change"] = o.strip().splitlines()[-3:] if o else []
        passed = "100% tests passed" in o
        c1, o1 = sh("bash %s/demo.sh" % md, cwd=md, timeout=1800)
        rec["demo_with_change_exit"] = c1
        rec["demo_with_change_tail"] = o1.strip().splitlines()[-4:]
        sh("git checkout -- .", cwd=wt)
        c, o = sh("cmake --build _build -j6", cwd=wt)
        c0, o0 = sh("bash %s/demo.sh" % md, cwd=md, timeout=1800)
        rec["demo_without_exit"] = c0
        rec["demo_without_tail"] = o0.strip().splitlines()[-3:]
        rec["ok"] = passed and c1 != 0 and c0 == 0
        if not rec["ok"]:
            rec["why"] = "suite passed=%s demo with=%s without=%s" % (passed, c1, c0)
        res.append(rec)
        if rec["ok"]:
            name = "%s-%s-%s" % (prop, tag, k)
            dst = os.path.join(SEEDED, name)
            os.makedirs(dst, exist_ok=True)
            for f in ("patch.diff", "demo.cpp", "demo.sh"):
                shutil.copy(os.path.join(md, f), os.path.join(dst, f))
            meta = {}
            try:
                meta = json.load(open(os.path.join(md, "meta.json")))
            except Exception as e:
                meta = {"note": "meta.json of the author unreadable: %s" % e}
            meta["property"] = prop
            meta["confirmed_by_me"] = {"worktree": wt, "suite_with_change": "14/14 passed (ctest -j6)", "demo_with_change_exit": c1, "demo_without_exit": c0,
                                       "demo_with_change_tail": rec["demo_with_change_tail"], "commands": ["git apply patch.diff", "cmake --build _build -j6", "ctest --test-dir _build -j6 --timeout 900", "bash demo.sh (non-zero)", "git checkout -- .", "cmake --build _build -j6", "bash demo.sh (zero)"]}
            json.dump(meta, open(os.path.join(dst, "meta.json"), "w"), indent=1)
        print(json.dumps(rec)[:600], flush=True)
    return res


def detect(names, tier, runs=None, check=None):
    rows = []
    for name in names:
        d = os.path.join(SEEDED, name)
        prop = check or name.split("-")[0]
        patch = os.path.join(d, "patch.diff")
        # a scratch worktree of /repo's HEAD with the change applied; /repo itself is never touched
        wt = "/tmp/seeded-wt-%s" % prop; outd = "/tmp/seeded-out-%s" % prop
        sh("git -C /repo worktree remove --force %s" % wt)
        c, o = sh("git -C /repo worktree add -q --detach %s HEAD" % wt)
        c, o = sh("git apply %s" % patch, cwd=wt)
        if c != 0:
            rows.append((name, "patch does not apply to HEAD", "")); sh("git -C /repo worktree remove --force %s" % wt); continue
        t0 = time.time()
        try:
            cmd = "./check %s --tier %s" % (prop, tier) + (" --runs %d" % runs if runs else "")
            c, o = sh("VERIF_REPO=%s VERIF_OUT=%s VERIF_JOBS=%s %s" % (wt, outd, os.environ.get("VERIF_JOBS", "16"), cmd), cwd=HERE, timeout=7200)
        finally:
            sh("git -C /repo worktree remove --force %s" % wt)
        lines = [l for l in o.splitlines() if l.startswith("VIOLATION") or l.startswith("  C") or "MACHINERY" in l or "BUILD FAILED" in l]
        sigs = [l.strip().split(": ")[0] for l in o.splitlines() if l.startswith("  C")]
        verdict = "DETECTED" if c == 1 else ("missed" if c == 0 else "machinery-error(exit %d)" % c)
        rec = {"name": name, "check": cmd, "exit": c, "verdict": verdict, "signatures": sigs, "wall_s": round(time.time() - t0, 1), "output_tail": o.strip().splitlines()[-12:]}
        json.dump(rec, open(os.path.join(d, "detect.json" if not check else "detect-%s.json" % check), "w"), indent=1)
        rows.append((name, verdict, "; ".join(sigs)[:200]))
        print("%-24s %-10s %s" % rows[-1], flush=True)
        # replay files written for seeded changes are not kept
        for l in o.splitlines():
            if l.startswith("VIOLATION") and "replay=" in l:
                p = l.split("replay=")[1].strip()
                if os.path.exists(p):
                    shutil.move(p, os.path.join(d, "replay-" + os.path.basename(p)))
    return 0


def table():
    """markdown table of all seeded changes: what, trigger, detected by which signatures"""
    rows = []
    for name in sorted(os.listdir(SEEDED)):
        d = os.path.join(SEEDED, name)
        if not os.path.isdir(d):
            continue
        try:
            m = json.load(open(os.path.join(d, "meta.json")))
        except Exception:
            m = {}
        try:
            t = json.load(open(os.path.join(d, "detect.json")))
        except Exception:
            t = {}
        summ = " ".join(str(m.get("summary", "")).split())[:230]
        need = " ".join(str(m.get("needs", "")).split())[:200]
        sigs = []
        for sg in t.get("signatures", []):
            if sg not in sigs:
                sigs.append(sg)
        verdict = t.get("verdict", "not run")
        for f in sorted(glob.glob(os.path.join(d, "detect-*.json"))):
            x = json.load(open(f))
            verdict += "; by %s: %s" % (os.path.basename(f)[7:-5], x.get("verdict"))
            for sg in x.get("signatures", [])[:2]:
                if sg not in sigs:
                    sigs.append(sg)
        rows.append("| %s | %s | %s | %s | %s |" % (name, summ.replace("|", "/"), need.replace("|", "/"), verdict, "; ".join(sigs[:3]).replace("|", "/")[:260]))
    print("| seeded change | what was changed | needs | quick check | first signatures |")
    print("|---|---|---|---|---|")
    print("\n".join(rows))


if __name__ == "__main__":
    a = sys.argv[1:]
    if a and a[0] == "confirm":
        tag = a[4] if len(a) > 4 else "a"
        confirm(a[1], a[2], a[3], tag)
    elif a and a[0] == "detect":
        tier = "quick"; runs = None; names = []; chk = None
        i = 1
        while i < len(a):
            if a[i] == "--tier": tier = a[i + 1]; i += 2
            elif a[i] == "--runs": runs = int(a[i + 1]); i += 2
            elif a[i] == "--check": chk = a[i + 1]; i += 2
            else: names.append(a[i]); i += 1
        if not names:
            names = sorted(n for n in os.listdir(SEEDED) if os.path.isdir(os.path.join(SEEDED, n)))
        sys.exit(detect(names, tier, runs, chk))
    elif a and a[0] == "table":
        table()
    else:
        print(__doc__)
