// Debug helper: reads a plan (JSON with "make" and "ops") on stdin, applies it and prints the status of every op.
#include "sim/tsg_common.hpp"
#include <iostream>
using namespace tsgsim;
int main(){ std::cout << std::unitbuf;
    std::string all((std::istreambuf_iterator<char>(std::cin)), std::istreambuf_iterator<char>());
    sim::Json p = sim::Json::parse(all);
    if (p.has("plan")) { sim::Json q = p.at("plan"); p = q; }
    TasmanianSparseGrid g; doMake(g, p.at("make"));
    auto show=[&](const char* w){ std::cout << w << ": " << observe(g).sec[0].s << " limits="; for(int l: g.getLevelLimits()) std::cout<<l<<","; std::cout << "\n"; };
    show("make");
    if (p.has("ops")) for (auto const &o : p.at("ops").a) { std::string s = applyOp(g, o); std::cout << o.dump() << "\n   -> " << s << "\n"; show("   "); }
    for (int b=0;b<2;b++){ std::ostringstream os; g.write(os, b==1); std::cout << (b? "binary":"ascii") << " bytes " << os.str().size() << "\n"; 
       TasmanianSparseGrid r; std::istringstream is(os.str()); try{ r.read(is, b==1); std::cout << "  read ok\n"; }catch(std::exception&e){ std::cout << "  read failed: " << e.what() << "\n"; } }
}
