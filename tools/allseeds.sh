#!/bin/bash
# run every claimed check's quick tier under the given seeds; prints exit code and wall time (false-alarm / slowness screen)
cd "$(dirname "$0")/.."
for sd in "$@"; do
  for id in C06 C09 C12 C13 C14 C15 C17 C18 C20; do
    t0=$(date +%s); out=$(VERIF_SEED=$sd ./check $id --tier quick 2>&1); rc=$?; t1=$(date +%s)
    echo "seed=$sd $id exit=$rc $((t1-t0))s $(echo "$out" | grep -E "VIOLATION|MACHINERY|WARNING" | head -3 | cut -c1-200)"
  done
done
